//! Neighbour operations: other public API calls of volute that a caller thread makes *between*
//! its `random()` draws (workload dimension "history": random() must not depend on which other
//! operations ran before it on this or another thread).
//!
//! Which operation runs after which draw is a pure function of argv (the ops seed, the thread
//! and the draw index): an odd ops seed gives a pseudo-random mix (on average one operation per
//! four draws), an even one gives the SAME operation `(seed / 2) % NOPS` with argument
//! `(seed / 2) / NOPS % 64` after EVERY draw.  Operations with constant operands log a digest (`B` line, call id
//! 100+op) that feeds the applicability monitor; operations on the freshly drawn table only
//! execute (their result depends on simulated entropy, so it is not comparable across runs).
use volute::sop::{Esop, Sop};
use volute::{Lut, Lut0, Lut1, Lut2, Lut3, Lut4, Lut5, Lut6, Lut7, Lut8};

pub const NOPS: u64 = 37;

fn fnv(h: &mut u64, bytes: &[u8]) {
    for b in bytes {
        *h ^= *b as u64;
        *h = h.wrapping_mul(0x100000001b3);
    }
}

fn dg(bl: &[u64]) -> u64 {
    let mut h = 0xcbf29ce484222325u64;
    for w in bl {
        fnv(&mut h, &w.to_le_bytes());
    }
    h
}

fn dgs(s: &str) -> u64 {
    let mut h = 0xcbf29ce484222325u64;
    fnv(&mut h, s.as_bytes());
    h
}

/// Returns Some(digest) for constant-operand operations, None for operations on the drawn table.
pub fn run(sel: u64, n: usize, drawn: &[u64]) -> (u32, Option<u64>) {
    let op = ((sel & 0xff) % NOPS) as u32; // low byte: operation, next byte: argument (fixed mode packs them that way)
    let arg = ((sel >> 8) % 64) as usize;
    let well_formed = drawn.len() == if n <= 6 { 1 } else { 1usize << (n - 6) } && (n >= 6 || drawn[0] >> (1u32 << n) == 0);
    let r = match op {
        0 => Some(dg(Lut::nth_var(7, arg % 7).blocks()) ^ dg(Lut5::nth_var(arg % 5).blocks())),
        1 => {
            let a = Lut::from_blocks(7, &[0x6a5c_93f0_17e8_b42d, 0x0f1e_2d3c_4b5a_6978]);
            let b = Lut::from_blocks(7, &[0x8421_1248_f00f_a55a, 0x1357_9bdf_0246_8ace]);
            Some(dg((!&a & &b | (&a ^ &b)).blocks()))
        }
        2 => {
            if well_formed && n >= 2 {
                let l = Lut::from_blocks(n, drawn);
                let _ = l.swap(arg % n, (arg / 16) % n).flip(arg % n);
            }
            None
        }
        3 => {
            if well_formed && n >= 1 {
                let l = Lut::from_blocks(n, drawn);
                let (c0, c1) = l.cofactors(arg % n);
                let _ = Lut::from_cofactors(&c0, &c1, arg % n);
            }
            None
        }
        4 => {
            if well_formed {
                let l = Lut::from_blocks(n, drawn);
                let s = l.to_hex_string();
                let _ = Lut::from_hex_string(n, &s);
            }
            None
        }
        5 => Some(dg(Lut::threshold(6, arg % 7).blocks()) ^ dg(Lut::parity(8).blocks()).rotate_left(3) ^ dg(Lut::majority(5).blocks()).rotate_left(7) ^ dg(Lut4::symmetric(arg % 32).blocks())),
        6 => {
            let (l, p) = Lut3::from_blocks(&[0xca]).p_canonization();
            Some(dg(l.blocks()) ^ dg(&[p[0] as u64, p[1] as u64, p[2] as u64]).rotate_left(9))
        }
        7 => {
            if well_formed && n >= 1 && n <= 9 {
                let l = Lut::from_blocks(n, drawn);
                let _ = l.top_decomposition(arg % n);
                let _ = l.is_pos_unate(arg % n);
            }
            None
        }
        8 => Some(Lut::bdd_complexity(&[Lut::from_blocks(3, &[0xe8]), Lut::from_blocks(3, &[0x96])]) as u64),
        9 => {
            let s1: Sop = (&Lut::from_blocks(3, &[0xe8])).into();
            let s2: Sop = (&Lut::from_blocks(3, &[0x96])).into();
            let l: Lut = (&(&s1 | &s2)).into();
            Some(dg(l.blocks()) ^ dgs(&s1.to_string()))
        }
        10 => {
            let e: Esop = (&Lut::from_blocks(3, &[0xe8])).into();
            let l: Lut = (&e).into();
            Some(dg(l.blocks()) ^ (e.num_cubes() as u64) << 32)
        }
        11 => {
            let mut h = 0u64;
            for l in Lut::all_functions(2) {
                h = h.wrapping_mul(31).wrapping_add(l.blocks()[0]);
            }
            Some(h)
        }
        12 => {
            let s = Lut4::from(0x6ac8u16);
            let d: Lut = s.into();
            let back = Lut4::try_from(d.clone()).map(|x| u16::from(x)).unwrap_or(0);
            Some(dg(d.blocks()) ^ back as u64 ^ (u64::from(Lut6::from(0x1234_5678_9abc_def0u64).not())).rotate_left(5))
        }
        13 => Some(dgs(&Lut::from_blocks(5, &[0xdead_beef]).to_string()) ^ dgs(&Lut::from_blocks(2, &[0x6]).to_bin_string())),
        14 => {
            let (l, f) = Lut4::from(0x6ac8u16).n_canonization();
            Some(dg(l.blocks()) ^ f as u64)
        }
        16 => {
            if well_formed && n <= 6 {
                let l = Lut::from_blocks(n, drawn);
                let _ = Lut::bdd_complexity(&[l.clone(), !&l]);
            }
            None
        }
        17 => Some(Lut4::bdd_complexity(&[Lut4::from(0x6ac8u16), Lut4::from(0x1ee1u16)]) as u64),
        18 => {
            if well_formed && n <= 3 {
                let _ = Lut::from_blocks(n, drawn).npn_canonization();
            }
            None
        }
        19 => {
            if well_formed && n <= 4 {
                let l = Lut::from_blocks(n, drawn);
                let s: Sop = (&l).into();
                let e: Esop = (&l).into();
                let _ = (s.num_cubes(), e.num_cubes());
            }
            None
        }
        // 20..27: the CALLER's own, legal, use of the `rand` crate on the same thread between volute's draws
        // (the thread-local generator is shared with volute; nothing volute keeps may depend on how many
        // words, half-words or bytes somebody else took from it)
        20 => {
            use rand::RngCore;
            let _ = rand::thread_rng().next_u32();
            None
        }
        21 => {
            use rand::RngCore;
            let mut b = [0u8; 67];
            rand::thread_rng().fill_bytes(&mut b[..1 + arg]);
            None
        }
        22 => {
            use rand::Rng;
            let mut g = rand::thread_rng();
            let _ = (g.gen::<bool>(), g.gen_range(0..arg + 1), g.gen::<u64>());
            None
        }
        23 => {
            use rand::seq::SliceRandom;
            let mut v = [0u8, 1, 2, 3, 4, 5, 6];
            v.shuffle(&mut rand::thread_rng());
            None
        }
        24 => {
            let _ = (rand::random::<u64>(), rand::random::<u8>());
            None
        }
        25 => {
            // a handle kept across volute's draws, used a little every time
            use rand::RngCore;
            thread_local! { static KEPT: std::cell::RefCell<Option<rand::rngs::ThreadRng>> = const { std::cell::RefCell::new(None) }; }
            KEPT.with(|k| {
                let mut k = k.borrow_mut();
                let g = k.get_or_insert_with(rand::thread_rng);
                for _ in 0..(arg % 5) {
                    let _ = g.next_u64();
                }
            });
            None
        }
        26 => {
            // enough words to wrap the generator's block buffer at a varying offset
            use rand::RngCore;
            let mut g = rand::thread_rng();
            for _ in 0..(17 + arg) {
                let _ = g.next_u64();
            }
            None
        }
        27 => {
            use rand::{Rng, SeedableRng};
            let mut own = rand::rngs::StdRng::from_rng(rand::thread_rng()).unwrap();
            let mut other = rand::rngs::SmallRng::from_entropy();
            let _ = (own.gen::<u64>(), other.gen::<u32>());
            None
        }
        // 28..35: more of the API on the DRAWN table and on special shapes of its size (constants, projections)
        28 => {
            if well_formed {
                use std::hash::{Hash, Hasher};
                let l = Lut::from_blocks(n, drawn);
                let c = l.clone();
                let mut h = std::collections::hash_map::DefaultHasher::new();
                l.hash(&mut h);
                let _ = (h.finish(), l == c, l.cmp(&Lut::zero(n)), l.partial_cmp(&Lut::one(n)), l < c.not());
            }
            None
        }
        29 => {
            if well_formed {
                let l = Lut::from_blocks(n, drawn);
                let mut keep: Vec<Lut> = (0..1 + arg % 8).map(|_| l.clone()).collect();
                for (i, k) in keep.iter_mut().enumerate() {
                    k.not_inplace();
                    if n >= 2 {
                        k.flip_inplace(i % n);
                        k.swap_inplace(i % n, (i + 1) % n);
                    }
                    k.xor_inplace(&l);
                    k.set_value(i % (1usize << n), i & 1 == 0);
                }
                drop(keep);
            }
            None
        }
        30 => {
            if well_formed {
                let l = Lut::from_blocks(n, drawn);
                macro_rules! rt {
                    ($t:ty) => {{
                        if let Ok(s) = <$t>::try_from(l.clone()) {
                            let d: Lut = s.into();
                            let _ = d == l;
                        }
                    }};
                }
                match n {
                    0 => rt!(Lut0),
                    1 => rt!(Lut1),
                    2 => rt!(Lut2),
                    3 => rt!(Lut3),
                    4 => rt!(Lut4),
                    5 => rt!(Lut5),
                    6 => rt!(Lut6),
                    7 => rt!(Lut7),
                    8 => rt!(Lut8),
                    _ => {}
                }
                // a conversion that must fail: wrong size
                let _ = Lut3::try_from(Lut::zero(4)).is_err();
            }
            None
        }
        31 => {
            if well_formed && n <= 8 {
                let l = Lut::from_blocks(n, drawn);
                let _ = (dgs(&l.to_string()), dgs(&l.to_bin_string()), dgs(&format!("{:x} {:b}", l, l)));
            }
            None
        }
        32 => {
            if well_formed && n >= 2 && n <= 5 {
                let l = Lut::from_blocks(n, drawn);
                let _ = l.p_canonization();
                let _ = l.n_canonization();
            }
            if well_formed && (n == 7 || n == 8) {
                // multi-word operands: input-negation canonization only (2^n flips; permutations are out of budget)
                let _ = Lut::from_blocks(n, drawn).n_canonization();
            }
            None
        }
        36 => {
            // canonization of multi-word CONSTANT operands
            let (a, fa) = Lut::majority(7).n_canonization();
            let (b, fb) = (Lut::nth_var(7, arg % 7).not(), 0u32);
            // (permutation canonization of a 7-variable table is 5040 swaps: minutes per call under the interpreter)
            Some(dg(a.blocks()) ^ dg(b.blocks()).rotate_left(7) ^ (fa as u64) << 40 ^ (fb as u64) << 20)
        }
        33 => {
            // special shapes of the drawn size: constants and projections through the variable transforms,
            // decomposition and two-level forms
            let m = n.clamp(2, 6);
            let v = arg % m;
            for l in [Lut::zero(m), Lut::one(m), Lut::nth_var(m, v), Lut::nth_var(m, v).not()] {
                let _ = l.swap(v, (v + 1) % m).flip(v);
                let (c0, c1) = l.cofactors(v);
                let _ = Lut::from_cofactors(&c0, &c1, v) == l;
                let _ = (l.top_decomposition(v), l.is_pos_unate(v), l.is_neg_unate(v));
                if m <= 4 {
                    let s: Sop = (&l).into();
                    let e: Esop = (&l).into();
                    let _ = (s.num_cubes(), e.num_cubes(), l.n_canonization());
                }
                let _ = Lut::from_hex_string(m, &l.to_hex_string());
            }
            None
        }
        34 => {
            let mut h = 0u64;
            for l in Lut::all_functions(3).take(40 + arg) {
                h = h.wrapping_mul(31).wrapping_add(l.blocks()[0]);
            }
            for l in Lut2::all_functions() {
                h = h.wrapping_mul(31).wrapping_add(l.blocks()[0]);
            }
            Some(h ^ (arg as u64) << 48)
        }
        35 => {
            if well_formed && n <= 3 {
                let l = Lut::from_blocks(n, drawn);
                let a: Sop = (&l).into();
                let b: Sop = (&Lut::nth_var(n.max(1), 0)).into();
                if n >= 1 {
                    let _ = (dgs(&(&a & &b).to_string()), dgs(&(&a | &b).to_string()), dgs(&(!&a).to_string()));
                }
                let e: Esop = (&l).into();
                let _ = dgs(&e.to_string());
            }
            None
        }
        _ => {
            let mut l = Lut::zero(7);
            l.set_bit(arg % 128);
            l.not_inplace();
            l.flip_inplace(arg % 7);
            Some(dg(l.blocks()) ^ ((Lut::one(7) == Lut::zero(7).not()) as u64))
        }
    };
    (1_000_000 + op * 10_000 + arg as u32, r)
}

/// An ILLEGAL call of another volute function: an index out of range or operands of different sizes.
/// The library documents these as panics; the caller (main.rs) decides whether the unwind is caught.
pub fn illegal(sel: u64, n: usize, drawn: &[u64]) {
    let well_formed = drawn.len() == if n <= 6 { 1 } else { 1usize << (n - 6) } && (n >= 6 || drawn[0] >> (1u32 << n) == 0);
    let l = if well_formed { Lut::from_blocks(n, drawn) } else { Lut::zero(n) };
    match sel % 13 {
        0 => {
            let _ = Lut::nth_var(3, 5);
        }
        1 => {
            let _ = l.swap(0, n + 1);
        }
        2 => {
            let _ = l.flip(n);
        }
        3 => {
            let _ = l.cofactors(n + 2);
        }
        4 => {
            let _ = Lut::from_blocks(3, &[0, 0]);
        }
        5 => {
            let _ = &l & &Lut::one(n + 1);
        }
        6 => {
            let _ = l.value(1usize << n);
        }
        7 => {
            let _ = Lut::bdd_complexity(&[Lut::from_blocks(3, &[0xe8]), Lut::from_blocks(4, &[0x6ac8])]);
        }
        8 => {
            let _ = l.top_decomposition(n);
        }
        9 => {
            let mut m = l.clone();
            m.set_bit(1usize << n);
        }
        10 => {
            let _ = Lut5::nth_var(5);
        }
        11 => {
            // canonization of a 1-variable function panics at the pinned commit
            let _ = Lut::nth_var(1, 0).p_canonization();
            let _ = Lut::nth_var(3, 7);
        }
        _ => {
            let _ = l.clone() ^ Lut::zero(n + 1);
        }
    }
}
