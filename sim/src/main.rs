//! c19_sim — simulated system for property C19, run under Miri.
//!
//! The "nodes" are K caller threads that call volute's `random()` constructors
//! concurrently.  Everything the run depends on comes either from argv (the
//! workload shape) or from the simulator (Miri: entropy, thread schedule,
//! memory model, clock, addresses — all derived from `-Zmiri-seed`).
//!
//! argv: <K> <D> <sizes n1,n2,..> <lut|static|both> <order-seed> <yield 0|1> <main-draws 0|1> [battery 0|1] [seq|cyc] [ops-seed]
//!   ops-seed != 0: after every draw the thread makes one other public API call (see ops.rs)
//!   further options as key=value after the positional ones:
//!     warm=1  the main thread makes ONE draw per (size, type) of the workload before any worker is
//!             spawned (thread id 1000), so no worker is the first caller in the process
//!     hang=H  bounded liveness: a monitor thread ends the run with `HANG ...` (exit 3) if, for H simulated
//!             seconds (Miri's virtual clock), at least one random() call was in flight and no call started
//!             or returned (default 0 = no monitor)
//!     gens=G  the K workers are spawned in G successive generations, each joined before the next
//!             starts (thread ids g*K + t): thread churn, TLS/address reuse across threads
//!     spawn=M how the caller threads are created: 0 anonymous `thread::spawn` from main (default);
//!             1 `Builder` with the SAME name for every worker (what thread pools do) and a stack size;
//!             2 `Builder` names `worker-<t>`, reused by every generation (a respawned pool worker);
//!             3 anonymous scoped threads (`thread::scope`); 4 workers spawned by a launcher thread, not
//!             by main; 5 scoped threads that all carry the same name
//!     bar=1   every worker of a generation makes its first draw, then waits (spinning on a Relaxed counter, with
//!             yields) until all K workers of that generation have made theirs: K caller threads that have all
//!             called random() are alive at the same time
//!     fault=F injected caller-side faults (bit mask).  1: between draws a worker makes an ILLEGAL call of
//!             another volute function (index out of range, size mismatch: documented to panic) and
//!             catches the unwind, then keeps drawing.  2: every generation has an extra victim thread
//!             (ids 2000+g) that makes a few draws next to the workers, then makes an illegal call,
//!             does NOT catch it and dies (its own draws are discarded; an `F <tid>` line records the
//!             death).  random() on the surviving threads must not care.
//!
//! mode `seq` (default): every thread walks the size list in its own permutation and performs D
//!   draws per size (and per type) back to back.
//! mode `cyc`: the size list is a *cycle of typed calls* (`4L,4S,0L,5S`); every thread repeats the
//!   cycle D times, starting at its own rotation, so draws of different sizes interleave on one
//!   thread.  The type argument is ignored.
//!
//! Output (one `write_all` at the end, hand-encoded; `format!` is slow under Miri):
//!   C <argv echo>
//!   D <thread> <L|S> <n> <seq_start> <seq_end> <warn-mask dec> <blocks: 16 hex digits per word, word 0 first, '.'-separated; '-' if none> <slot> <rep>
//!     (slot = which call site of the workload made the draw, rep = how many times that site had run before)
//!   B <thread> <round> <call-id> <digest hex>           (applicability monitor)
//!   J <thread>                                          (join error: thread died)
//!   HANG <simulated seconds without progress> <events so far> <thread:type:n of the calls in flight>   (then exit 3)
//!   F <thread>                                          (fault mode 2: the victim thread died, as intended)
//!   Q <illegal calls injected and caught> <of which unwound>
//!   T <virtual elapsed ns>
//!   E                                                   (end marker)
use std::io::Write;
use std::sync::atomic::{AtomicBool, AtomicU64, Ordering};
use std::thread;

use volute::{
    Lut, Lut0, Lut1, Lut10, Lut11, Lut12, Lut2, Lut3, Lut4, Lut5, Lut6, Lut7, Lut8, Lut9,
};

mod battery;
mod ops;

/// Global event sequence number.  Relaxed RMWs give a total order of events
/// without creating happens-before edges between threads, so the stamps
/// cannot hide a data race in the code under test from Miri's detector.
static SEQ: AtomicU64 = AtomicU64::new(0);

#[inline(always)]
fn stamp() -> u64 {
    SEQ.fetch_add(1, Ordering::Relaxed)
}

/// Calls currently inside random(), for the liveness monitor: slot i holds 0 or
/// 1 + (thread << 16 | type << 8 | n) of a call in flight (Relaxed RMWs only, like SEQ).
static INFLIGHT: [AtomicU64; 32] = [const { AtomicU64::new(0) }; 32];
static DONE: AtomicBool = AtomicBool::new(false);
/// workers that have made their first draw (bar=1), all generations together
static ARRIVED: AtomicU64 = AtomicU64::new(0);
/// injected illegal calls made / of which unwound (evidence only; Relaxed RMWs like SEQ)
static FAULTS: [AtomicU64; 2] = [const { AtomicU64::new(0) }; 2];
thread_local! { static MY_TID: std::cell::Cell<u64> = const { std::cell::Cell::new(0) }; }
// set while a thread is making an injected illegal call: the panic hook then stays silent
thread_local! { static FAULT_DEPTH: std::cell::Cell<u32> = const { std::cell::Cell::new(0) }; }

fn monitor(limit_s: u64) {
    let mut last = SEQ.fetch_add(0, Ordering::Relaxed);
    let mut since = std::time::Instant::now();
    loop {
        thread::park_timeout(std::time::Duration::from_secs(2));
        if DONE.swap(false, Ordering::Relaxed) {
            return;
        }
        // RMWs always read the latest value (a plain Relaxed load may be served a stale one)
        let now = SEQ.fetch_add(0, Ordering::Relaxed);
        let mut inflight = Vec::new();
        for a in INFLIGHT.iter() {
            let v = a.fetch_add(0, Ordering::Relaxed);
            if v != 0 {
                inflight.push(v - 1);
            }
        }
        if now != last || inflight.is_empty() {
            last = now;
            since = std::time::Instant::now();
            continue;
        }
        let el = since.elapsed().as_secs();
        if el >= limit_s {
            let mut buf = Vec::new();
            buf.extend_from_slice(b"HANG ");
            put_dec(&mut buf, el);
            buf.push(b' ');
            put_dec(&mut buf, now);
            for v in inflight {
                buf.push(b' ');
                put_dec(&mut buf, v >> 16);
                buf.push(b':');
                buf.push(((v >> 8) & 0xff) as u8);
                buf.push(b':');
                put_dec(&mut buf, v & 0xff);
            }
            buf.push(b'\n');
            let mut o = std::io::stdout();
            let _ = o.write_all(&buf);
            let _ = o.flush();
            std::process::exit(3);
        }
    }
}

pub const W_BLOCKS: u8 = 1; // blocks().len() != max(1, 2^n / 64)
pub const W_HIGH: u8 = 2; // a bit at position >= 2^n is set
pub const W_NUMVARS: u8 = 4; // num_vars() != n
pub const W_NUMBITS: u8 = 8; // num_bits() != 2^n
pub const W_PANIC: u8 = 16; // the call did not return (it unwound)
pub const W_CHANGED: u8 = 32; // the returned Lut, kept alive by the caller, no longer holds the table it held when it was returned

struct Rec {
    typ: u8, // b'L' | b'S'
    n: u8,
    s0: u64,
    s1: u64,
    warn: u8,
    blocks: Vec<u64>,
    slot: u32,
    rep: u32,
    /// the returned object itself (dynamic type), kept alive until the run ends and handed to the main
    /// thread, which re-reads it: a caller who keeps its draws must still see what it was given
    keep: Option<Lut>,
}

enum Ev {
    Draw(Rec),
    Bat(u32, u32, u64),
}

#[derive(Clone)]
struct Cfg {
    k: usize,
    d: usize,
    sizes: Vec<usize>,
    lut: bool,
    stat: bool,
    order: u64,
    yld: bool,
    main_draws: bool,
    battery: bool,
    cycle: Vec<(u8, usize)>, // non-empty in mode `cyc`
    ops: u64,
    warm: bool,
    gens: usize,
    hang: u64,
    spawn: u8,
    fault: u8,
    bar: bool,
}

fn splitmix(x: &mut u64) -> u64 {
    *x = x.wrapping_add(0x9E3779B97F4A7C15);
    let mut z = *x;
    z = (z ^ (z >> 30)).wrapping_mul(0xBF58476D1CE4E5B9);
    z = (z ^ (z >> 27)).wrapping_mul(0x94D049BB133111EB);
    z ^ (z >> 31)
}

/// In-run invariant: what "well-formed table of the requested size" means at
/// the observation point `blocks()`.
fn well_formed(n: usize, blocks: &[u64], num_vars: usize, num_bits: usize) -> u8 {
    let mut w = 0u8;
    let want = if n <= 6 { 1 } else { 1usize << (n - 6) };
    if blocks.len() != want {
        w |= W_BLOCKS;
    }
    if n < 6 && !blocks.is_empty() && (blocks[0] >> (1u32 << n)) != 0 {
        w |= W_HIGH;
    }
    if num_vars != n {
        w |= W_NUMVARS;
    }
    if num_bits != (1usize << n) {
        w |= W_NUMBITS;
    }
    w
}

macro_rules! sdraw {
    ($t:ty) => {{
        let l = <$t>::random();
        (l.blocks().to_vec(), l.num_vars(), l.num_bits())
    }};
}

fn static_random(n: usize) -> (Vec<u64>, usize, usize, Option<Lut>) {
    let (b, nv, nb) = static_random_inner(n);
    (b, nv, nb, None)
}

fn static_random_inner(n: usize) -> (Vec<u64>, usize, usize) {
    match n {
        0 => sdraw!(Lut0),
        1 => sdraw!(Lut1),
        2 => sdraw!(Lut2),
        3 => sdraw!(Lut3),
        4 => sdraw!(Lut4),
        5 => sdraw!(Lut5),
        6 => sdraw!(Lut6),
        7 => sdraw!(Lut7),
        8 => sdraw!(Lut8),
        9 => sdraw!(Lut9),
        10 => sdraw!(Lut10),
        11 => sdraw!(Lut11),
        12 => sdraw!(Lut12),
        _ => panic!("harness: static size out of range"),
    }
}

fn dyn_random(n: usize) -> (Vec<u64>, usize, usize, Option<Lut>) {
    let l = Lut::random(n);
    (l.blocks().to_vec(), l.num_vars(), l.num_bits(), Some(l))
}

fn one_draw(typ: u8, n: usize, slot: u32, rep: u32) -> Rec {
    let tid = MY_TID.with(|t| t.get());
    let fl = &INFLIGHT[(tid % 32) as usize];
    fl.swap(1 + (tid << 16 | (typ as u64) << 8 | n as u64), Ordering::Relaxed);
    let s0 = stamp();
    let r = std::panic::catch_unwind(|| if typ == b'L' { dyn_random(n) } else { static_random(n) });
    let s1 = stamp();
    fl.swap(0, Ordering::Relaxed);
    match r {
        Ok((blocks, nv, nb, keep)) => {
            let warn = well_formed(n, &blocks, nv, nb);
            Rec { typ, n: n as u8, s0, s1, warn, blocks, slot, rep, keep }
        }
        Err(_) => Rec { typ, n: n as u8, s0, s1, warn: W_PANIC, blocks: Vec::new(), slot, rep, keep: None },
    }
}

fn neighbour_op(cfg: &Cfg, st: &mut u64, r: &Rec, out: &mut Vec<Ev>) {
    if cfg.ops == 0 {
        return;
    }
    let sel = if cfg.ops & 1 == 1 {
        let s = splitmix(st);
        if (s >> 60) & 3 != 0 {
            return; // mix mode: on average one neighbour operation per four draws
        }
        s
    } else {
        ((cfg.ops >> 1) % ops::NOPS) | (((cfg.ops >> 1) / ops::NOPS) << 8) // fixed mode: the same call after every draw
    };
    let (n, blocks) = (r.n as usize, r.blocks.clone());
    // a panic in another API function is not C19's business: swallow it, keep the thread alive
    if let Ok((id, Some(dg))) = std::panic::catch_unwind(move || ops::run(sel, n, &blocks)) {
        out.push(Ev::Bat(0, id, dg));
    }
}

/// Caller-side fault: an illegal call of another volute function (documented to panic), caught here.
/// On average one per eight draws; which one is a pure function of argv.
fn caught_fault(cfg: &Cfg, st: &mut u64, r: &Rec) {
    if cfg.fault & 1 == 0 {
        return;
    }
    let s = splitmix(st);
    if (s >> 61) != 0 {
        return;
    }
    let (n, blocks) = (r.n as usize, r.blocks.clone());
    FAULT_DEPTH.with(|d| d.set(1));
    let r = std::panic::catch_unwind(move || ops::illegal(s, n, &blocks));
    FAULT_DEPTH.with(|d| d.set(0));
    FAULTS[0].fetch_add(1, Ordering::Relaxed);
    if r.is_err() {
        FAULTS[1].fetch_add(1, Ordering::Relaxed);
    }
}

/// The victim thread of fault mode 2: a few draws, then an illegal call that unwinds out of the thread.
fn victim(g: usize, cfg: &Cfg) {
    MY_TID.with(|x| x.set(2000 + g as u64));
    let mut st = cfg.order ^ ((g as u64 + 77).wrapping_mul(0xD1B54A32D192ED03));
    let calls: Vec<(u8, usize)> = if !cfg.cycle.is_empty() {
        cfg.cycle.clone()
    } else {
        cfg.sizes.iter().map(|&n| (if cfg.lut { b'L' } else { b'S' }, n)).collect()
    };
    let nd = 1 + (splitmix(&mut st) % 5) as usize;
    let mut last = None;
    for i in 0..nd {
        let (typ, n) = calls[i % calls.len()];
        last = Some(one_draw(typ, n, 2000, i as u32));
        if cfg.yld {
            thread::yield_now();
        }
    }
    let r = last.unwrap();
    FAULT_DEPTH.with(|d| d.set(1));
    ops::illegal(splitmix(&mut st), r.n as usize, &r.blocks);
    // an illegal call that returned (it must not: C17) is not C19's business; die anyway
    panic!("harness: victim thread ends here");
}

fn worker(t: usize, cfg: &Cfg) -> Vec<Ev> {
    MY_TID.with(|x| x.set(t as u64));
    // per-thread permutation of the size list: a pure function of argv
    let mut st = cfg.order ^ ((t as u64 + 1).wrapping_mul(0xD1B54A32D192ED03));
    let mut sizes = cfg.sizes.clone();
    for i in (1..sizes.len()).rev() {
        let j = (splitmix(&mut st) % (i as u64 + 1)) as usize;
        sizes.swap(i, j);
    }
    let mut out = Vec::with_capacity(2 * cfg.d * (sizes.len() + cfg.cycle.len()) + 64);
    let mut ost = cfg.ops ^ ((t as u64 + 7).wrapping_mul(0xA24BAED4963EE407));
    let mut fst = cfg.order ^ ((t as u64 + 13).wrapping_mul(0x9FB21C651E98DF25));
    let mut round = 0u32;
    if !cfg.cycle.is_empty() {
        let p = cfg.cycle.len();
        let rot = (splitmix(&mut st) % p as u64) as usize;
        for rep in 0..cfg.d {
            for i in 0..p {
                let slot = (i + rot) % p;
                let (typ, n) = cfg.cycle[slot];
                let r = one_draw(typ, n, slot as u32, rep as u32);
                neighbour_op(cfg, &mut ost, &r, &mut out);
                caught_fault(cfg, &mut fst, &r);
                out.push(Ev::Draw(r));
            }
            if cfg.yld {
                thread::yield_now();
            }
            if cfg.battery && rep == 0 {
                battery::run(t as u64 ^ cfg.order, 0, &mut |id, dg| out.push(Ev::Bat(0, id, dg)));
            }
        }
        return out;
    }
    for &n in &sizes {
        let pos = cfg.sizes.iter().position(|&x| x == n).unwrap_or(0) as u32;
        for d in 0..cfg.d {
            if cfg.lut {
                let r = one_draw(b'L', n, 2 * pos, d as u32);
                neighbour_op(cfg, &mut ost, &r, &mut out);
                caught_fault(cfg, &mut fst, &r);
                out.push(Ev::Draw(r));
            }
            if cfg.stat {
                let r = one_draw(b'S', n, 2 * pos + 1, d as u32);
                neighbour_op(cfg, &mut ost, &r, &mut out);
                caught_fault(cfg, &mut fst, &r);
                out.push(Ev::Draw(r));
            }
            if cfg.yld {
                thread::yield_now();
            }
            if cfg.bar && d == 0 && n == sizes[0] && t < cfg.gens * cfg.k {
                // rendezvous after the first draw: wait until every worker of this generation has drawn once
                let want = ((t / cfg.k) as u64 + 1) * cfg.k as u64;
                ARRIVED.fetch_add(1, Ordering::Relaxed);
                while ARRIVED.fetch_add(0, Ordering::Relaxed) < want {
                    thread::yield_now();
                }
            }
        }
        if cfg.battery && round == 0 {
            battery::run(t as u64 ^ cfg.order, round, &mut |id, dg| out.push(Ev::Bat(round, id, dg)));
            round += 1;
        }
    }
    out
}

const HEX: &[u8; 16] = b"0123456789abcdef";

fn put_dec(buf: &mut Vec<u8>, mut v: u64) {
    let mut tmp = [0u8; 20];
    let mut i = 20;
    if v == 0 {
        buf.push(b'0');
        return;
    }
    while v > 0 {
        i -= 1;
        tmp[i] = b'0' + (v % 10) as u8;
        v /= 10;
    }
    buf.extend_from_slice(&tmp[i..]);
}

fn put_hex64(buf: &mut Vec<u8>, v: u64) {
    let mut tmp = [0u8; 16];
    for i in 0..16 {
        tmp[15 - i] = HEX[((v >> (4 * i)) & 15) as usize];
    }
    buf.extend_from_slice(&tmp);
}

fn encode(buf: &mut Vec<u8>, t: usize, evs: &[Ev]) {
    for ev in evs {
        match ev {
            Ev::Draw(r) => {
                buf.extend_from_slice(b"D ");
                put_dec(buf, t as u64);
                buf.push(b' ');
                buf.push(r.typ);
                buf.push(b' ');
                put_dec(buf, r.n as u64);
                buf.push(b' ');
                put_dec(buf, r.s0);
                buf.push(b' ');
                put_dec(buf, r.s1);
                buf.push(b' ');
                // value stability, checked here = on the main thread, after the drawing thread was joined
                let changed = match &r.keep {
                    Some(l) => l.blocks() != &r.blocks[..],
                    None => false,
                };
                put_dec(buf, (r.warn | if changed { W_CHANGED } else { 0 }) as u64);
                buf.push(b' ');
                if r.blocks.is_empty() {
                    buf.push(b'-');
                }
                for (i, b) in r.blocks.iter().enumerate() {
                    if i > 0 {
                        buf.push(b'.');
                    }
                    put_hex64(buf, *b);
                }
                buf.push(b' ');
                put_dec(buf, r.slot as u64);
                buf.push(b' ');
                put_dec(buf, r.rep as u64);
                buf.push(b'\n');
            }
            Ev::Bat(round, id, dg) => {
                buf.extend_from_slice(b"B ");
                put_dec(buf, t as u64);
                buf.push(b' ');
                put_dec(buf, *round as u64);
                buf.push(b' ');
                put_dec(buf, *id as u64);
                buf.push(b' ');
                put_hex64(buf, *dg);
                buf.push(b'\n');
            }
        }
    }
}

fn usage() -> ! {
    eprintln!("usage: c19_sim <K> <D> <sizes> <lut|static|both> <order-seed> <yield 0|1> <main-draws 0|1> [battery 0|1]");
    std::process::exit(64);
}

type Joined = Vec<(usize, Option<Vec<Ev>>)>;

fn builder(cfg: &Cfg, t: usize) -> thread::Builder {
    match cfg.spawn {
        1 | 5 => thread::Builder::new().name("pool-worker".to_string()).stack_size(256 * 1024),
        2 => {
            let mut name = b"worker-".to_vec();
            put_dec(&mut name, t as u64);
            thread::Builder::new().name(String::from_utf8(name).unwrap())
        }
        _ => thread::Builder::new(),
    }
}

/// One generation: spawn the K workers (and the victim of fault mode 2) the way `spawn=` says, let the
/// main thread take part if asked, join everything.
fn generation(cfg: &Cfg, g: usize, main_tid: usize, with_main: bool) -> (Joined, Option<Vec<Ev>>, bool) {
    let has_victim = cfg.fault & 2 != 0;
    match cfg.spawn {
        3 | 5 => thread::scope(|s| {
            let mut handles = Vec::with_capacity(cfg.k);
            for t in 0..cfg.k {
                let tid = g * cfg.k + t;
                handles.push((tid, builder(cfg, t).spawn_scoped(s, move || worker(tid, cfg)).expect("harness: spawn")));
            }
            let v = if has_victim { Some(s.spawn(move || victim(g, cfg))) } else { None };
            let ml = if with_main { Some(worker(main_tid, cfg)) } else { None };
            let joined = handles.into_iter().map(|(tid, h)| (tid, h.join().ok())).collect();
            (joined, ml, v.map(|h| h.join().is_err()).unwrap_or(false))
        }),
        4 => {
            // the workers' parent is a launcher thread, not main
            let c = cfg.clone();
            let launcher = thread::Builder::new().name("launcher".to_string()).spawn(move || {
                let mut handles = Vec::with_capacity(c.k);
                for t in 0..c.k {
                    let cc = c.clone();
                    let tid = g * c.k + t;
                    handles.push((tid, thread::spawn(move || worker(tid, &cc))));
                }
                let v = if c.fault & 2 != 0 {
                    let cc = c.clone();
                    Some(thread::spawn(move || victim(g, &cc)))
                } else {
                    None
                };
                let joined: Joined = handles.into_iter().map(|(tid, h)| (tid, h.join().ok())).collect();
                (joined, v.map(|h| h.join().is_err()).unwrap_or(false))
            });
            let ml = if with_main { Some(worker(main_tid, cfg)) } else { None };
            let (joined, vd) = launcher.expect("harness: spawn").join().expect("harness: launcher died");
            (joined, ml, vd)
        }
        _ => {
            let mut handles = Vec::with_capacity(cfg.k);
            for t in 0..cfg.k {
                let c = cfg.clone();
                let tid = g * cfg.k + t;
                handles.push((tid, builder(cfg, t).spawn(move || worker(tid, &c)).expect("harness: spawn")));
            }
            let v = if has_victim {
                let c = cfg.clone();
                Some(thread::spawn(move || victim(g, &c)))
            } else {
                None
            };
            let ml = if with_main { Some(worker(main_tid, cfg)) } else { None };
            let joined = handles.into_iter().map(|(tid, h)| (tid, h.join().ok())).collect();
            (joined, ml, v.map(|h| h.join().is_err()).unwrap_or(false))
        }
    }
}

fn main() {
    let a: Vec<String> = std::env::args().collect();
    if a.len() == 2 && a[1] == "--build-only" {
        println!("c19_sim built");
        return;
    }
    if a.len() == 2 && a[1] == "--illegal-check" {
        // which of the injected illegal calls unwind (all of them should: property C17)
        std::panic::set_hook(Box::new(|_| {}));
        for n in [0usize, 3, 6, 7] {
            for sel in 0..13u64 {
                let blocks = vec![0u64; if n <= 6 { 1 } else { 1 << (n - 6) }];
                let r = std::panic::catch_unwind(move || ops::illegal(sel, n, &blocks));
                println!("illegal n={} sel={} {}", n, sel, if r.is_err() { "unwound" } else { "RETURNED" });
            }
        }
        return;
    }
    if a.len() < 8 {
        usage();
    }
    let p = |s: &str| -> u64 { s.parse().unwrap_or_else(|_| usage()) };
    let cyc = a.iter().skip(9).any(|x| x == "cyc");
    let mut cycle = Vec::new();
    if cyc {
        for tok in a[3].split(',') {
            let (num, ty) = tok.split_at(tok.len().saturating_sub(1));
            let ty = match ty {
                "L" => b'L',
                "S" => b'S',
                _ => usage(),
            };
            cycle.push((ty, p(num) as usize));
        }
    }
    let cfg = Cfg {
        k: p(&a[1]) as usize,
        d: p(&a[2]) as usize,
        sizes: if cyc { cycle.iter().map(|c| c.1).collect() } else { a[3].split(',').map(|s| p(s) as usize).collect() },
        cycle,
        ops: if a.len() > 10 && !a[10].contains('=') { p(&a[10]) } else { 0 },
        warm: a.iter().any(|x| x == "warm=1"),
        hang: a.iter().find_map(|x| x.strip_prefix("hang=")).map(|x| p(x)).unwrap_or(0),
        gens: a.iter().find_map(|x| x.strip_prefix("gens=")).map(|x| p(x) as usize).unwrap_or(1).max(1),
        spawn: a.iter().find_map(|x| x.strip_prefix("spawn=")).map(|x| p(x) as u8).unwrap_or(0),
        fault: a.iter().find_map(|x| x.strip_prefix("fault=")).map(|x| p(x) as u8).unwrap_or(0),
        bar: a.iter().any(|x| x == "bar=1"),
        lut: a[4] == "lut" || a[4] == "both",
        stat: a[4] == "static" || a[4] == "both",
        order: p(&a[5]),
        yld: p(&a[6]) != 0,
        main_draws: p(&a[7]) != 0,
        battery: a.len() > 8 && !a[8].contains('=') && p(&a[8]) != 0,
    };
    if !(cfg.lut || cfg.stat) || cfg.sizes.iter().any(|&n| n > 12) || cfg.k == 0 && !cfg.main_draws {
        usage();
    }
    // Silence the default panic hook's backtrace capture (slow under Miri);
    // a panicking draw is recorded in the log as W_PANIC.
    std::panic::set_hook(Box::new(|info| {
        let mut e = std::io::stderr();
        let _ = e.write_all(if FAULT_DEPTH.with(|d| d.get()) != 0 { b"PANIC (injected fault): " } else { b"PANIC: " });
        if let Some(l) = info.location() {
            let _ = e.write_all(l.file().as_bytes());
            let _ = e.write_all(b":");
            let mut b = Vec::new();
            put_dec(&mut b, l.line() as u64);
            let _ = e.write_all(&b);
        }
        let _ = e.write_all(b"\n");
    }));

    let t0 = std::time::Instant::now();
    let mon = if cfg.hang > 0 {
        let h = cfg.hang;
        Some(thread::spawn(move || monitor(h)))
    } else {
        None
    };
    let mut buf: Vec<u8> = Vec::with_capacity(1 << 16);
    buf.extend_from_slice(b"C");
    for s in &a[1..] {
        buf.push(b' ');
        buf.extend_from_slice(s.as_bytes());
    }
    buf.push(b'\n');
    if cfg.warm {
        // one draw per (type, size) on the main thread before any worker exists
        MY_TID.with(|x| x.set(1000));
        let mut evs = Vec::new();
        let calls: Vec<(u8, usize)> = if !cfg.cycle.is_empty() {
            cfg.cycle.clone()
        } else {
            let mut v = Vec::new();
            for &n in &cfg.sizes {
                if cfg.lut {
                    v.push((b'L', n));
                }
                if cfg.stat {
                    v.push((b'S', n));
                }
            }
            v
        };
        for (i, (typ, n)) in calls.iter().enumerate() {
            evs.push(Ev::Draw(one_draw(*typ, *n, 1000 + i as u32, 0)));
        }
        encode(&mut buf, 1000, &evs);
    }
    let main_tid = cfg.gens * cfg.k;
    let mut main_log = None;
    for g in 0..cfg.gens {
        let with_main = g == 0 && cfg.main_draws;
        let (joined, ml, victim_died) = generation(&cfg, g, main_tid, with_main);
        if with_main {
            main_log = ml;
        }
        for (tid, r) in joined {
            match r {
                Some(evs) => encode(&mut buf, tid, &evs),
                None => {
                    buf.extend_from_slice(b"J ");
                    put_dec(&mut buf, tid as u64);
                    buf.push(b'\n');
                }
            }
        }
        if victim_died {
            buf.extend_from_slice(b"F ");
            put_dec(&mut buf, 2000 + g as u64);
            buf.push(b'\n');
        }
    }
    if let Some(evs) = main_log {
        encode(&mut buf, main_tid, &evs);
    }
    if let Some(m) = mon {
        DONE.store(true, Ordering::Relaxed);
        m.thread().unpark();
        let _ = m.join();
    }
    if cfg.fault != 0 {
        buf.extend_from_slice(b"Q ");
        put_dec(&mut buf, FAULTS[0].fetch_add(0, Ordering::Relaxed));
        buf.push(b' ');
        put_dec(&mut buf, FAULTS[1].fetch_add(0, Ordering::Relaxed));
        buf.push(b'\n');
    }
    let el = t0.elapsed().as_nanos() as u64;
    buf.extend_from_slice(b"T ");
    put_dec(&mut buf, el);
    buf.extend_from_slice(b"\nE\n");
    let mut o = std::io::stdout();
    o.write_all(&buf).unwrap();
    o.flush().unwrap();
}
