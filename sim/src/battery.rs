//! Applicability monitor (DESIGN §4.1) — NOT a claimed check.
//!
//! A small fixed battery of deterministic volute calls, one or two per module
//! that the not-applicable properties anchor.  Every simulated thread runs it
//! in a per-thread order, with repeats, in between its `random()` draws; each
//! result is logged as a digest keyed by call id.  On a tree where those calls
//! are pure functions of their arguments, every (call id) has exactly one
//! digest over all threads, schedules, seeds and positions in the history.
//! The driver only *reports* a disagreement (NOTE line); it says nothing about
//! the digests being right.
use volute::sop::{Esop, Sop};
use volute::{Lut, Lut4};

fn fnv(h: &mut u64, bytes: &[u8]) {
    for b in bytes {
        *h ^= *b as u64;
        *h = h.wrapping_mul(0x100000001b3);
    }
}

fn dg_blocks(bl: &[u64]) -> u64 {
    let mut h = 0xcbf29ce484222325u64;
    for w in bl {
        fnv(&mut h, &w.to_le_bytes());
    }
    h
}

fn dg_str(s: &str) -> u64 {
    let mut h = 0xcbf29ce484222325u64;
    fnv(&mut h, s.as_bytes());
    h
}

fn a7() -> Lut {
    Lut::from_blocks(7, &[0x6a5c_93f0_17e8_b42d, 0x0f1e_2d3c_4b5a_6978])
}
fn b7() -> Lut {
    Lut::from_blocks(7, &[0x8421_1248_f00f_a55a, 0x1357_9bdf_0246_8ace])
}
fn a4() -> Lut {
    Lut::from_blocks(4, &[0x6ac8])
}

pub const NCALLS: u32 = 10;

fn call(id: u32) -> u64 {
    match id {
        0 => dg_blocks((&a7() & &b7()).blocks()) ^ dg_blocks((&a7() | &b7()).blocks()).rotate_left(7),
        1 => dg_blocks((&a7() ^ &b7()).blocks()) ^ dg_blocks((!&a7()).blocks()).rotate_left(9),
        2 => dg_blocks(a7().swap(1, 6).flip(2).blocks()),
        3 => {
            let (l, p, f) = a4().npn_canonization();
            dg_blocks(l.blocks()) ^ dg_blocks(&[f as u64]).rotate_left(5) ^ dg_blocks(&p.iter().map(|x| *x as u64).collect::<Vec<_>>()).rotate_left(11)
        }
        4 => {
            let (l, f) = a7().n_canonization();
            dg_blocks(l.blocks()) ^ (f as u64)
        }
        5 => {
            let mut h = 0u64;
            for i in 0..4 {
                h = h.wrapping_mul(31).wrapping_add(a4().top_decomposition(i) as u64 + 1);
                h = h.wrapping_mul(3).wrapping_add(a4().is_pos_unate(i) as u64);
            }
            h
        }
        6 => Lut::bdd_complexity(&[a4(), Lut::from_blocks(4, &[0x1ee1])]) as u64,
        7 => {
            let s = a7().to_hex_string();
            let back = Lut::from_hex_string(7, &s).unwrap();
            dg_str(&s) ^ dg_blocks(back.blocks()).rotate_left(3) ^ dg_str(&Lut4::from_blocks(&[0x6ac8]).to_string())
        }
        8 => {
            let s1: Sop = (&a4()).into();
            let s2: Sop = (&Lut::from_blocks(4, &[0x1ee1])).into();
            let p = &s1 & &s2;
            let l: Lut = (&p).into();
            dg_blocks(l.blocks()) ^ (p.num_cubes() as u64).rotate_left(40) ^ dg_str(&p.to_string()).rotate_left(1)
        }
        9 => {
            let e: Esop = (&a4()).into();
            let l: Lut = (&e).into();
            dg_blocks(l.blocks()) ^ (e.num_cubes() as u64).rotate_left(40)
        }
        _ => 0,
    }
}

pub fn run(key: u64, round: u32, sink: &mut dyn FnMut(u32, u64)) {
    // per-(thread, round) rotation + stride walk over the call ids, two passes
    let start = ((key.wrapping_mul(0x9E3779B97F4A7C15) >> 33) as u32 + round * 3) % NCALLS;
    let strides = [1u32, 3, 7, 9];
    let stride = strides[((key >> 3) as usize + round as usize) % 4];
    for pass in 0..2u32 {
        for i in 0..NCALLS {
            let id = (start + pass + i * stride) % NCALLS;
            sink(id, call(id));
        }
    }
}
