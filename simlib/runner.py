"""Runs the simulated system (sim/ crate) under Miri and parses its event log."""
import hashlib
import os
import re
import signal
import subprocess
import sys
import threading
import time

VERIF = os.path.dirname(os.path.dirname(os.path.abspath(__file__)))
SIM_DIR = os.path.join(VERIF, "sim")
REPO = "/repo"

# Aliasing (stacked borrows) and validity checking are irrelevant to C19 and
# cost ~2x; the data-race detector and weak-memory emulation stay ON.
BASE_FLAGS = ["-Zmiri-disable-stacked-borrows", "-Zmiri-disable-validation", "-Zmiri-backtrace=full"]


class HarnessError(Exception):
    pass


# The simulator's sysroot: the toolchain's std with Instant::now()/SystemTime::now() routed through a
# quantisable virtual clock (tools/build_sysroot.py).  None = stock Miri sysroot (fallback: coarse-clock
# runs are then skipped and a NOTE is printed).
SYSROOT = None
# Cross-interpreted lanes: the same patched library built for other targets; Miri interprets that target's MIR on
# this host.  s390x = big-endian; x86_64-pc-windows-msvc and aarch64-apple-darwin = other operating systems (std's
# thread-local storage, thread naming, clock and entropy paths differ per OS, and so does any cfg(windows) /
# cfg(target_os) / cfg(target_arch) code a change brings with it).
BE_TARGET = "s390x-unknown-linux-gnu"
WIN_TARGET = "x86_64-pc-windows-msvc"
MAC_TARGET = "aarch64-apple-darwin"
OS_TARGETS = [WIN_TARGET, MAC_TARGET]
TARGETS = [BE_TARGET] + OS_TARGETS
SYSROOTS = {}  # target -> sysroot path, for the targets whose sysroot could be built
SYSROOT_BE = None


def target_dir(target):
    return "target-patched-be" if target == BE_TARGET else "target-patched-" + target.split("-")[2 if target.count("-") > 2 else 1] + "-" + target.split("-")[0]


def ensure_sysroot():
    global SYSROOT, SYSROOT_BE
    tool = os.path.join(VERIF, "tools", "build_sysroot.py")
    p = subprocess.run([sys.executable, tool], capture_output=True, text=True, timeout=1800)
    if p.returncode == 0 and os.path.isdir(p.stdout.strip()):
        SYSROOT = p.stdout.strip()
    else:
        SYSROOT = None
    for t in TARGETS:
        q = subprocess.run([sys.executable, tool, "--target", t], capture_output=True, text=True, timeout=1800)
        if q.returncode == 0 and os.path.isdir(q.stdout.strip()):
            SYSROOTS[t] = q.stdout.strip()
        else:
            SYSROOTS.pop(t, None)
    SYSROOT_BE = SYSROOTS.get(BE_TARGET)
    return SYSROOT, (p.stderr or "").strip()[-500:]


def env_for(miriflags, target=None):
    env = dict(os.environ)
    env["MIRIFLAGS"] = " ".join(miriflags)
    env["CARGO_NET_OFFLINE"] = "true"
    env.pop("RUSTFLAGS", None)
    env.pop("CARGO_TARGET_DIR", None)
    env.pop("MIRI_SYSROOT", None)
    if target:
        env["MIRI_SYSROOT"] = SYSROOTS[target]
        env["CARGO_TARGET_DIR"] = target_dir(target)
    elif SYSROOT:
        env["MIRI_SYSROOT"] = SYSROOT
        env["CARGO_TARGET_DIR"] = "target-patched"  # relative to the crate dir (cwd): never mix artefacts of two sysroots
    return env


def miriflags(seed, preempt, extra=(), clockq=0, wallstep=None):
    f = [f"-Zmiri-seed={seed}", f"-Zmiri-preemption-rate={preempt}"] + BASE_FLAGS + list(extra)
    if clockq and (SYSROOT or SYSROOTS):
        f.append(f"-Zmiri-env-set=VERIF_CLOCK_QUANTUM_NS={int(clockq)}")  # coarse simulated clock
    if wallstep and (SYSROOT or SYSROOTS):
        # the wall clock (SystemTime) is stepped BACK by wallstep[1] seconds at virtual time wallstep[0] ns
        f.append(f"-Zmiri-env-set=VERIF_WALL_STEP_AT_NS={int(wallstep[0])}")
        f.append(f"-Zmiri-env-set=VERIF_WALL_STEP_BACK_S={int(wallstep[1])}")
    return f


def flags_of(job):
    return miriflags(job["miri_seed"], job["preempt"], job.get("extra_flags", ()), job.get("clockq", 0), job.get("wallstep"))


def _fresh_target_dirs(sim_dir):
    """Artefacts compiled against an earlier build of a sysroot are useless (rustc: "can't find crate") but look fresh to
    cargo, because the sysroot's path has not changed: every target directory remembers the stamp of the sysroot it
    was filled from and is emptied when that sysroot has been rebuilt."""
    import shutil
    pairs = ([(SYSROOT, "target-patched")] if SYSROOT else []) + [(SYSROOTS[t], target_dir(t)) for t in TARGETS if t in SYSROOTS]
    for sysroot, tdir in pairs:
        try:
            stamp = open(os.path.join(sysroot, ".verif-stamp")).read().strip()
        except OSError:
            continue
        d = os.path.join(sim_dir, tdir)
        mark = os.path.join(d, ".sysroot-stamp")
        try:
            have = open(mark).read().strip()
        except OSError:
            have = None
        if have != stamp:
            shutil.rmtree(d, ignore_errors=True)
            os.makedirs(d, exist_ok=True)
            open(mark, "w").write(stamp)


def build(sim_dir=SIM_DIR):
    """Rebuild the harness (and volute, from the path dependency's working tree) for the Miri target, in the
    dev profile and in the release profile.  Any failure is a harness error (exit 2)."""
    t0 = time.time()
    _fresh_target_dirs(sim_dir)
    for prof in ([], ["--release"], ["--features", "volute-default"], ["--release", "--features", "volute-default"]):
        p = subprocess.run(["cargo", "+nightly", "miri", "run", "-q", "--offline"] + prof + ["--", "--build-only"],
                           cwd=sim_dir, env=env_for(miriflags(0, 0)), capture_output=True, text=True, timeout=1800)
        if p.returncode != 0 or "c19_sim built" not in p.stdout:
            raise HarnessError(f"build of the simulation harness ({' '.join(prof) or 'dev profile'}) failed:\n" + p.stdout[-2000:] + p.stderr[-6000:])
    for t in TARGETS:
        if t not in SYSROOTS:
            continue
        p = subprocess.run(["cargo", "+nightly", "miri", "run", "-q", "--offline", "--target", t, "--", "--build-only"],
                           cwd=sim_dir, env=env_for(miriflags(0, 0), t), capture_output=True, text=True, timeout=1800)
        if p.returncode != 0 or "c19_sim built" not in p.stdout:
            raise HarnessError(f"build of the simulation harness for {t} failed:\n" + p.stdout[-2000:] + p.stderr[-6000:])
    return time.time() - t0


def argv_of(job):
    if job.get("cycle"):
        a = [str(job["K"]), str(job["D"]), ",".join(f"{n}{t}" for (t, n) in job["cycle"]), "both",
             str(job["order"]), str(int(job["yield"])), str(int(job["main"])), str(int(job.get("battery", 0))), "cyc"]
    else:
        a = [str(job["K"]), str(job["D"]), ",".join(str(n) for n in job["sizes"]), job["types"],
             str(job["order"]), str(int(job["yield"])), str(int(job["main"])), str(int(job.get("battery", 0)))]
    if job.get("ops"):
        a += ["seq"] if len(a) == 8 else []
        a += [str(job["ops"])]
    if job.get("warm"):
        a += ["warm=1"]
    if job.get("gens", 1) > 1:
        a += [f"gens={job['gens']}"]
    if job.get("spawn"):
        a += [f"spawn={job['spawn']}"]
    if job.get("fault"):
        a += [f"fault={job['fault']}"]
    if job.get("bar"):
        a += ["bar=1"]
    a += [f"hang={hang_limit(job)}"]
    return a


def hang_limit(job):
    """Bounded liveness, in simulated seconds: no random() call may stay in flight this long without any
    call starting or returning.  6x the predicted duration of the WHOLE run (>= 120 s), i.e. thousands of
    times the duration of one call; fixed in the job so that a replay uses the same bound."""
    return int(job.get("hang") or max(120, round(6 * predicted_cost(job))))


def nthreads(job):
    """threads that run the full workload (the warm-up thread makes one draw per call site only)"""
    return job["K"] * job.get("gens", 1) + (1 if job["main"] else 0)


def warm_draws(job):
    if not job.get("warm"):
        return 0
    if job.get("cycle"):
        return len(job["cycle"])
    return len(job["sizes"]) * (2 if job["types"] == "both" else 1)


def draws_of(job):
    if job.get("cycle"):
        return nthreads(job) * job["D"] * len(job["cycle"]) + warm_draws(job)
    return nthreads(job) * job["D"] * (2 if job["types"] == "both" else 1) * len(job["sizes"]) + warm_draws(job)


def words_of(job):
    if job.get("cycle"):
        return nthreads(job) * job["D"] * sum(1 if n <= 6 else 1 << (n - 6) for (_, n) in job["cycle"])
    w = sum(1 if n <= 6 else 1 << (n - 6) for n in job["sizes"])
    nt = 2 if job["types"] == "both" else 1
    return nthreads(job) * job["D"] * nt * w


def predicted_cost(job):
    k = job["K"] + (1 if job["main"] else 0)  # concurrently live threads
    per = 0.0045 if k == 1 else 0.0045 + 0.0006 * k
    c = 1.5 + words_of(job) * per
    c += draws_of(job) * 0.004  # per-draw overhead (alloc, stamps, checks)
    if job.get("battery"):
        c += 3.0 * k
    if job.get("fault", 0) & 2:
        c += 0.5 * job.get("gens", 1)  # the victim thread: seeding, a few draws, an unwind
    if job.get("fault", 0) & 1:
        c += draws_of(job) * 0.003
    if job.get("ops"):
        # one neighbour operation (~30 ms) per four draws (odd seed: mix) or per draw (even seed: fixed)
        c += draws_of(job) * (0.008 if job["ops"] & 1 else 0.03)
    return c


_LIVE = set()
_LIVE_LOCK = threading.Lock()


def _kill(p):
    try:
        os.killpg(p.pid, signal.SIGKILL)
    except (ProcessLookupError, PermissionError):
        pass


def kill_all_live():
    with _LIVE_LOCK:
        for p in list(_LIVE):
            _kill(p)


def run_job(job, sim_dir=SIM_DIR, repo_marker=REPO, timeout_factor=30.0, cancel=None):
    """Execute one simulated run in a fresh process.  Returns a result dict:
    {status: ok|ub|deadlock|harness|timeout, log, stderr, wall, ...}."""
    flags = flags_of(job)
    tgt = job.get("target")
    cmd = (["cargo", "+nightly", "miri", "run", "-q", "--offline"] + (["--release"] if job.get("release") else [])
           + (["--features", "volute-default"] if job.get("vdefault") and not job.get("target") else [])
           + (["--target", tgt] if tgt else []) + ["--"] + argv_of(job))
    # wall-clock safety net only (a run that stops making progress is caught, deterministically, by the
    # simulated-time liveness monitor): generous, so that a correct but much slower generator — one that
    # pre-generates a large buffer per thread, say — is not cut off
    tmo = max(900.0, timeout_factor * predicted_cost(job))
    t0 = time.time()
    if cancel is not None and cancel.is_set():
        return {"status": "cancelled", "wall": 0.0, "log": "", "stderr": "", "cmd": cmd, "flags": flags}
    p = subprocess.Popen(cmd, cwd=sim_dir, env=env_for(flags, tgt), stdout=subprocess.PIPE, stderr=subprocess.PIPE, start_new_session=True)
    with _LIVE_LOCK:
        _LIVE.add(p)
    try:
        try:
            so, se = p.communicate(timeout=tmo)
        except subprocess.TimeoutExpired:
            _kill(p)
            so, se = p.communicate()
            return {"status": "timeout", "wall": time.time() - t0, "log": "", "stderr": (se or b"").decode("utf-8", "replace")[-4000:],
                    "cmd": cmd, "flags": flags, "timeout_s": tmo, "why": f"no result within {tmo:.0f}s (30x the predicted cost, at least 15 min): possible non-termination"}
    finally:
        with _LIVE_LOCK:
            _LIVE.discard(p)
    wall = time.time() - t0
    if cancel is not None and cancel.is_set() and p.returncode not in (0, 1):
        return {"status": "cancelled", "wall": wall, "log": "", "stderr": "", "cmd": cmd, "flags": flags}
    out = so.decode("utf-8", "replace")
    err = se.decode("utf-8", "replace")
    res = {"wall": wall, "log": out, "stderr": err[-20000:], "cmd": cmd, "flags": flags, "rc": p.returncode}
    if p.returncode == 0 and out.endswith("E\n"):
        res["status"] = "ok"
        return res
    if p.returncode == 3 and "HANG " in out:
        line = [l for l in out.splitlines() if l.startswith("HANG ")][-1].split(" ")
        calls = ", ".join("thread %s %s n=%s" % (c.split(":")[0], {"L": "Lut", "S": "LutN"}.get(c.split(":")[1], "?"), c.split(":")[2]) for c in line[3:])
        res["status"] = "hang"
        res["why"] = f"random() did not return: no call started or returned for {line[1]} simulated seconds (bound {hang_limit(job)}) while in flight: {calls}"
        return res
    res["status"], res["why"] = classify_failure(err, repo_marker, sim_dir)
    return res


def _earlier_access_in_draw(err, sim_dir):
    """A data-race report names two accesses: the current one (with a backtrace) and an earlier one, of which Miri
    gives the source position in the local crate (`help: and (1) occurred earlier here --> src/main.rs:L`).  True iff
    that position is a line of the harness that calls random()."""
    m = re.search(r"occurred earlier here\s*\n\s*--> (src/main\.rs):(\d+)", err)
    if not m:
        return False
    try:
        lines = open(os.path.join(sim_dir, m.group(1))).read().splitlines()
        return "::random(" in lines[int(m.group(2)) - 1]
    except (OSError, IndexError):
        return False


def classify_failure(err, repo_marker=REPO, sim_dir=SIM_DIR):
    """A Miri-reported failure is a *violation* only if the interpreter stopped inside a random() call of the
    code under test: the report's backtrace has a frame of the code under test (<repo>/src) AND a frame of
    the harness function that wraps a draw (one_draw / dyn_random / static_random).  Undefined behaviour
    inside another API call made by the workload (neighbour operations, battery) is not C19's business.
    A data race is also attributed to random() when the EARLIER of the two racing accesses was made at a random()
    call site of the harness (Miri reports its source position), whatever safe code the current access is in.
    One more case is attributed to random(): a read of UNINITIALISED memory anywhere outside the constant-operand
    battery — the harness is safe Rust and creates no uninitialised data, so such bytes can only be part of a
    table a draw returned (copies of it travel to the neighbour operation, the invariant check and the log).
    Anything else (unsupported operation, build error, failure in harness code) is a harness error."""
    in_volute = (repo_marker.rstrip("/") + "/src/") in err
    in_draw = bool(re.search(r"\b(one_draw|dyn_random|static_random)\b", err))
    m = re.search(r"error: (Undefined Behavior|deadlock|unsupported operation|abnormal termination|the evaluated program [a-z ]+|[^\n]{0,80})[^\n]*", err)
    head = m.group(0)[:300] if m else (err.strip().splitlines()[-1][:300] if err.strip() else "no diagnostics")
    if "Undefined Behavior" in head:
        if in_volute and in_draw:
            return "ub", head
        if "Data race" in head and _earlier_access_in_draw(err, sim_dir):
            return "ub", head + " (the earlier of the two racing accesses was made by a random() call; the current one is in the caller's own safe code)"
        if "uninitialized" in head and "battery::" not in err:
            return "ub", head + " (uninitialised bytes in a table returned by random(): the harness is safe Rust and creates none)"
        return "harness", head + (" (undefined behaviour outside a random() call)" if in_volute else "")
    if "deadlock" in head and in_volute and in_draw:
        return "deadlock", head
    return "harness", head


def parse_log(text):
    run = {"draws": [], "joins": [], "battery": [], "config": None, "virt_ns": None, "victims_died": [], "caught_faults": (0, 0)}
    for line in text.splitlines():
        if not line:
            continue
        c = line[0]
        if c == "D":
            f = line.split(" ")
            blocks = [] if f[7] == "-" else [int(x, 16) for x in f[7].split(".")]
            run["draws"].append({"t": int(f[1]), "typ": f[2], "n": int(f[3]), "s0": int(f[4]), "s1": int(f[5]),
                                 "warn": int(f[6]), "blocks": blocks, "slot": int(f[8]), "rep": int(f[9])})
        elif c == "B":
            f = line.split(" ")
            run["battery"].append((int(f[1]), int(f[2]), int(f[3]), f[4]))
        elif c == "J":
            run["joins"].append(int(line.split(" ")[1]))
        elif c == "F":
            run["victims_died"].append(int(line.split(" ")[1]))
        elif c == "Q":
            f = line.split(" ")
            run["caught_faults"] = (int(f[1]), int(f[2]))
        elif c == "T":
            run["virt_ns"] = int(line.split(" ")[1])
        elif c == "C":
            run["config"] = line[2:]
    return run


def interleaving_signature(run):
    """The schedule as observed: thread ids ordered by draw-completion stamp."""
    seq = [d["t"] for d in sorted(run["draws"], key=lambda d: d["s1"])]
    return hashlib.sha256(",".join(map(str, seq)).encode()).hexdigest(), seq


def repo_digest(repo=REPO):
    h = hashlib.sha256()
    src = os.path.join(repo, "src")
    for root, dirs, files in sorted(os.walk(src)):
        dirs.sort()
        for f in sorted(files):
            if f.endswith(".rs"):
                p = os.path.join(root, f)
                h.update(os.path.relpath(p, repo).encode())
                with open(p, "rb") as fh:
                    h.update(fh.read())
    for f in ("Cargo.toml",):
        with open(os.path.join(repo, f), "rb") as fh:
            h.update(fh.read())
    return h.hexdigest()[:16]
