"""Seeded batch driver, minimiser, replay, evidence writer for C19."""
import concurrent.futures as cf
import hashlib
import json
import os
import random
import re
import shutil
import subprocess
import sys
import time

from . import oracles, plan, runner
from .runner import HarnessError, VERIF, SIM_DIR, REPO

PROP = "C19"
NCPU = min(16, os.cpu_count() or 4)
# the two overrides exist for tools/run_seeded.py (mutation runs must not overwrite the real evidence)
EVIDENCE = os.path.join(os.environ.get("VERIF_EVIDENCE_DIR") or os.path.join(VERIF, "evidence"), f"{PROP}.json")
REPLAYS = os.environ.get("VERIF_REPLAY_DIR") or os.path.join(VERIF, "replays")
KNOWN = os.path.join(VERIF, "known_findings.json")


def log(*a):
    print(*a, flush=True)


# ------------------------------------------------------------------ seam audit

AUDIT_PATTERNS = {
    "unsafe": r"\bunsafe\b",
    "static_item": r"^\s*(pub\s+)?static\s",
    "thread_local": r"thread_local!",
    "once_lazy": r"\b(OnceLock|OnceCell|LazyLock|LazyCell|lazy_static|Once::new)\b",
    "interior_mut_or_sharing": r"\b(Cell|RefCell|UnsafeCell|Mutex|RwLock|Condvar|Atomic[A-Z][A-Za-z0-9]*|Rc|Arc)\b",
    "threads_tasks": r"\b(std::thread|thread::spawn|mpsc|async\s+fn|\.await)\b",
    "clock": r"\b(std::time|Instant|SystemTime|Duration|sleep)\b",
    "io_env": r"\b(std::io|std::fs|std::net|std::env|std::process|File::|stdin|stdout|stderr)\b",
    "hashed_container": r"\b(HashMap|HashSet|RandomState|DefaultHasher)\b",
    "randomness": r"\b(rand::|thread_rng|OsRng|getrandom|StdRng|SmallRng|from_entropy|seed_from_u64)\b",
    "fallible_alloc": r"\b(try_reserve|try_new|GlobalAlloc|alloc::alloc)\b",
    "drop_unwind": r"\b(impl\s+Drop|catch_unwind|resume_unwind)\b",
    "ffi": r"\bextern\s+\"C\"",
}
# what the audit found on the pinned tree (DESIGN §2); a difference is reported as a NOTE, never as a verdict
AUDIT_EXPECT = {k: 0 for k in AUDIT_PATTERNS}
AUDIT_EXPECT["randomness"] = 3  # `use rand::RngCore;` and `rand::thread_rng()` (two pattern hits) in fill_random


def _strip_comments(text):
    out = []
    for line in text.splitlines():
        i = line.find("//")
        out.append(line if i < 0 else line[:i])
    return "\n".join(out)


def seam_audit(repo=REPO):
    counts = {k: 0 for k in AUDIT_PATTERNS}
    where = {k: [] for k in AUDIT_PATTERNS}
    src = os.path.join(repo, "src")
    for root, dirs, files in sorted(os.walk(src)):
        dirs.sort()
        if os.path.relpath(root, src).startswith(os.path.join("sop", "optim")):
            continue  # optional features optim-mip / optim-sat: not built by the check
        for f in sorted(files):
            if not f.endswith(".rs"):
                continue
            p = os.path.join(root, f)
            text = open(p, encoding="utf-8", errors="replace").read()
            cut = text.find("#[cfg(test)]")
            if cut >= 0:
                text = text[:cut]
            text = _strip_comments(text)
            for k, pat in AUDIT_PATTERNS.items():
                for m in re.finditer(pat, text, re.M):
                    counts[k] += 1
                    ln = text.count("\n", 0, m.start()) + 1
                    where[k].append(f"{os.path.relpath(p, repo)}:{ln}")
    notes = []
    for k in AUDIT_PATTERNS:
        if counts[k] != AUDIT_EXPECT[k]:
            notes.append(f"seam audit: {k} occurrences = {counts[k]} (pinned tree: {AUDIT_EXPECT[k]}) at {', '.join(where[k][:6])}")
    return {"counts": counts, "sites": {k: v[:8] for k, v in where.items() if v}, "notes": notes}


# ------------------------------------------------------------------ running

def evaluate(job, res):
    """Parse + oracles for one finished run; returns a compact record."""
    rec = {"job": job, "status": res["status"], "wall": res["wall"], "violations": [], "why": res.get("why")}
    if res["status"] in ("ub", "deadlock", "hang"):
        rec["violations"] = [{"class": res["status"], "detail": res["why"], "key": res["status"], "threads": [], "n": None, "typ": None}]
        rec["stderr"] = res["stderr"]
        return rec
    if res["status"] != "ok":
        rec["stderr"] = res.get("stderr", "")
        return rec
    run = runner.parse_log(res["log"])
    want = runner.draws_of(job)
    if len(run["draws"]) + 0 != want and not run["joins"]:
        rec["status"] = "harness"
        rec["why"] = f"log has {len(run['draws'])} draw records, expected {want}"
        return rec
    rec["violations"] = oracles.check_run(run)
    rec["probes"] = oracles.probes(run)
    sig, seq = runner.interleaving_signature(run)
    rec["sig"] = sig
    rec["sig_prefix"] = seq[:48]
    rec["virt_ns"] = run["virt_ns"] or 0
    rec["victims_died"] = len(run.get("victims_died", []))
    rec["caught_faults"] = list(run.get("caught_faults", (0, 0)))
    rec["battery"] = sorted(set((cid, dg) for (_, _, cid, dg) in run["battery"]))
    rec["battery_calls"] = len(run["battery"])
    rec["log_sha"] = hashlib.sha256(res["log"].encode()).hexdigest()
    rec["first_draws"] = [f"t{d['t']} {d['typ']}{d['n']} [{d['s0']},{d['s1']}] {oracles.hexs(d['blocks'][:2])}" for d in sorted(run["draws"], key=lambda d: d["s0"])[:6]]
    if rec["violations"]:
        rec["run"] = run
    return rec


def run_batch(jobs, sim_dir=SIM_DIR, repo=REPO, workers=NCPU, stop_on_violation=True, progress=True):
    import threading
    # longest first (makespan), except that the cheap special-purpose kinds — thread churn, coarse clock, many
    # threads, pooled 16-thread runs: together a few per cent of the batch — go to the front, so that what only
    # they can see is reported in the first minute rather than the last
    front = {"G", "C", "T", "P16", "X", "B", "N", "F", "Y", "K"}
    order = sorted(jobs, key=lambda j: (0 if j.get("kind") in front else 1, -runner.predicted_cost(j)))
    recs = []
    stop = False
    cancel = threading.Event()
    t0 = time.time()
    with cf.ThreadPoolExecutor(max_workers=workers) as ex:
        pending = {}
        it = iter(order)

        def submit_next():
            for j in it:
                f = ex.submit(lambda j=j: evaluate(j, runner.run_job(j, sim_dir, repo, cancel=cancel)))
                pending[f] = j
                return True
            return False
        for _ in range(workers):
            if not submit_next():
                break
        done_n = 0
        while pending:
            done, _ = cf.wait(list(pending), return_when=cf.FIRST_COMPLETED)
            for f in done:
                j = pending.pop(f)
                rec = f.result()
                if rec["status"] == "cancelled":
                    continue
                recs.append(rec)
                done_n += 1
                if rec["violations"] or rec["status"] in ("harness", "timeout"):
                    if progress:
                        log(f"  run {j['id']} ({j['kind']}) -> {rec['status']} {[v['class'] for v in rec['violations']]} {rec.get('why') or ''}")
                    if stop_on_violation and not stop:
                        stop = True
                        # a violation (or harness error) ends the batch: the runs still in flight are abandoned
                        cancel.set()
                        runner.kill_all_live()
                if progress and rec["wall"] > 150:
                    log(f"  (run {j['id']} ({j['kind']}) took {rec['wall']:.0f}s; predicted {runner.predicted_cost(j):.0f}s)")
                if progress and done_n % 32 == 0:
                    log(f"  ... {done_n}/{len(order)} runs, {time.time() - t0:.0f}s")
                if not stop:
                    submit_next()
    return recs, stop


# ------------------------------------------------------------------ minimisation

def _same_class(viols, target):
    for v in viols:
        if v["class"] == target["class"]:
            return v
    return None


def minimise(job, target, sim_dir, repo, budget=60, wall_budget=150.0):
    """Search over (smaller argv, seed) for a run that shows the same violation class."""
    cur = dict(job)
    cur_v = target
    used = 0
    rng = random.Random(job["miri_seed"] ^ 0x5EED)
    derived = [rng.getrandbits(32) for _ in range(8)]

    t_start = time.time()

    def attempt(cand):
        nonlocal used
        # the seed that failed first (a defect that does not depend on the schedule reproduces at once),
        # then 8 derived seeds in parallel
        for seeds in ([cand["miri_seed"]], derived):
            cands = []
            for s in seeds:
                c = dict(cand)
                c["miri_seed"] = s
                cands.append(c)
            used += len(cands)
            recs, _ = run_batch(cands, sim_dir, repo, workers=min(NCPU, len(cands)), stop_on_violation=False, progress=False)
            recs.sort(key=lambda r: seeds.index(r["job"]["miri_seed"]))
            for r in recs:
                v = _same_class(r["violations"], target)
                if v:
                    return r["job"], v
            if time.time() - t_start > wall_budget:
                break
        return None

    def transforms(c, v):
        out = []
        if c.get("cycle"):
            cyc = c["cycle"]
            nthreads = c["K"] + (1 if c["main"] else 0)
            if nthreads > 1:
                out.append(("K=1", dict(c, K=1, main=0)))
            for i in range(len(cyc)):
                if len(cyc) > 1:
                    nc = cyc[:i] + cyc[i + 1:]
                    out.append((f"drop call {cyc[i][1]}{cyc[i][0]}", dict(c, cycle=nc, sizes=sorted(set(n for _, n in nc)))))
            if c.get("ops"):
                out.append(("ops=0", dict(c, ops=0)))
            if c.get("spawn"):
                out.append(("spawn=0", dict(c, spawn=0)))
            if c.get("fault"):
                out.append(("fault=0", dict(c, fault=0)))
                if c["fault"] == 3:
                    out.append(("fault=1", dict(c, fault=1)))
                    out.append(("fault=2", dict(c, fault=2)))
            if c.get("warm"):
                out.append(("warm=0", dict(c, warm=0)))
            if c.get("gens", 1) > 1:
                out.append((f"gens={c['gens'] - 1}", dict(c, gens=c["gens"] - 1)))
            if c["yield"]:
                out.append(("yield=0", dict(c, **{"yield": 0})))
            if c["D"] > 2:
                out.append((f"D={c['D'] // 2}", dict(c, D=c["D"] // 2)))
            if c.get("extra_flags"):
                out.append(("flags", dict(c, extra_flags=[])))
            return out
        if v.get("n") is not None and c["sizes"] != [v["n"]]:
            out.append(("sizes", dict(c, sizes=[v["n"]])))
        if v.get("typ") in ("L", "S") and c["types"] == "both":
            out.append(("types", dict(c, types="lut" if v["typ"] == "L" else "static")))
        if c.get("battery"):
            out.append(("battery", dict(c, battery=0)))
        if c.get("spawn"):
            out.append(("spawn=0", dict(c, spawn=0)))
        if c.get("fault"):
            out.append(("fault=0", dict(c, fault=0)))
            if c["fault"] == 3:
                out.append(("fault=1", dict(c, fault=1)))
                out.append(("fault=2", dict(c, fault=2)))
        if c.get("ops"):
            out.append(("ops=0", dict(c, ops=0)))
        if c.get("warm"):
            out.append(("warm=0", dict(c, warm=0)))
        if c.get("clockq"):
            out.append(("fine clock", dict(c, clockq=0)))
        if c.get("wallstep"):
            out.append(("no wall-clock step", dict(c, wallstep=None)))
        if c.get("release"):
            out.append(("dev profile", dict(c, release=0)))
        if c.get("vdefault"):
            out.append(("features=[rand] only", dict(c, vdefault=0)))
        if c.get("gens", 1) > 1:
            out.append((f"gens={c['gens'] - 1}", dict(c, gens=c["gens"] - 1)))
        nthreads = c["K"] + (1 if c["main"] else 0)
        inv = max(1, len(v.get("threads") or [1]))
        for k in sorted({inv, 2, 1}, reverse=False):
            if k < nthreads:
                out.append((f"K={k}", dict(c, K=k, main=0)))
        if c["main"] and c["K"] >= 1:
            out.append(("main=0", dict(c, main=0)))
        if c["yield"]:
            out.append(("yield=0", dict(c, **{"yield": 0})))
        if c["D"] > 2:
            out.append((f"D={c['D'] // 2}", dict(c, D=c["D"] // 2)))
        if c.get("extra_flags"):
            out.append(("flags", dict(c, extra_flags=[])))
        return out

    progress = True
    steps = []
    while progress and used < budget and time.time() - t_start < wall_budget:
        progress = False
        for name, cand in transforms(cur, cur_v):
            if used >= budget or time.time() - t_start > wall_budget:
                break
            got = attempt(cand)
            if got:
                cur, cur_v = got
                steps.append(name)
                progress = True
                break
    return cur, cur_v, steps, used


def trace_of(run, v, limit=400):
    ths = set(v.get("threads") or [])
    ev = [d for d in run["draws"] if (not ths or d["t"] in ths) and (v.get("n") is None or d["n"] == v["n"])]
    ev.sort(key=lambda d: d["s0"])
    out = []
    for d in ev[:limit]:
        out.append({"thread": d["t"], "type": d["typ"], "n": d["n"], "seq_start": d["s0"], "seq_end": d["s1"],
                    "warn": d["warn"], "blocks": [f"{b:016x}" for b in d["blocks"][:8]] + (["..."] if len(d["blocks"]) > 8 else [])})
    return out, len(ev)


def write_replay(job, v, run, steps, tries, original_job, repo):
    os.makedirs(REPLAYS, exist_ok=True)
    path = os.path.join(REPLAYS, f"{PROP}-{v['class']}-{job['miri_seed']}.json")
    trace, total = trace_of(run, v) if run else ([], 0)
    doc = {"property": PROP, "class": v["class"], "key": v["key"], "detail": v["detail"],
           "miri_seed": job["miri_seed"], "miriflags": runner.flags_of(job), "sysroot": "patched-clock" if runner.SYSROOT else "stock",
           "argv": runner.argv_of(job), "job": dict({k: job[k] for k in job if k not in ("id",)}, hang=runner.hang_limit(job)),
           "found_by": {k: original_job[k] for k in original_job if k not in ("id",)},
           "minimisation": {"accepted_steps": steps, "candidate_runs": tries},
           "repo_src_digest": runner.repo_digest(repo),
           "trace_events_total": total, "trace": trace,
           "how_to_replay": f"cd /verif && ./check {PROP} --replay {path}"}
    with open(path, "w") as f:
        json.dump(doc, f, indent=1)
    return path


# ------------------------------------------------------------------ known findings

def load_known():
    try:
        doc = json.load(open(KNOWN))
    except FileNotFoundError:
        return []
    return [e for e in doc.get("findings", []) if e.get("property") == PROP and e.get("status") == "open"]


def is_known(v, known):
    for e in known:
        if e.get("class") == v["class"] and e.get("key") in (None, v["key"]):
            return e
    return None


# ------------------------------------------------------------------ tier

def sysroot_note(jobs=None):
    """Make the patched-clock sysroot available (built once, ~25 s); without it the runs use the stock
    sysroot and coarse-clock runs lose their quantum (reported, never a verdict)."""
    sr, err = runner.ensure_sysroot()
    if not sr:
        n = sum(1 for j in (jobs or []) if j.get("clockq"))
        log(f"NOTE: patched-clock sysroot unavailable ({err or 'build failed'}); using the stock Miri sysroot, {n} coarse-clock runs run with the fine clock")
    if jobs is not None:
        for t in runner.TARGETS:
            if t in runner.SYSROOTS:
                continue
            n = sum(1 for j in jobs if j.get("target") == t)
            if n:
                log(f"NOTE: sysroot for {t} unavailable; the {n} runs of the plan that interpret this target are skipped")
                jobs[:] = [j for j in jobs if j.get("target") != t]
    return sr


def run_tier(tier, seed, sim_dir=SIM_DIR, repo=REPO, write_evidence=True, jobs=None, quiet=False):
    t0 = time.time()
    jobs = jobs if jobs is not None else plan.make_plan(seed, tier)
    kinds = sorted(set(j["kind"] for j in jobs))
    kind_txt = ", ".join("%s:%d" % (k, sum(1 for j in jobs if j["kind"] == k)) for k in kinds)
    plan_sha = hashlib.sha256(json.dumps(jobs, sort_keys=True).encode()).hexdigest()[:16]
    log(f"{PROP} {tier}: VERIF_SEED={seed}; {len(jobs)} simulated runs planned ({kind_txt}); plan sha256={plan_sha}")
    audit = seam_audit(repo)
    for n in audit["notes"]:
        log("NOTE: " + n)
    sysroot_note(jobs)
    try:
        bt = runner.build(sim_dir)
    except (HarnessError, subprocess.TimeoutExpired) as e:
        log(f"HARNESS-ERROR: {e}")
        return 2
    log(f"built harness + volute (working tree {runner.repo_digest(repo)}) for Miri in {bt:.1f}s")
    recs, stopped = run_batch(jobs, sim_dir, repo)
    bad = [r for r in recs if r["status"] in ("harness", "timeout")]
    viol = [r for r in recs if r["violations"]]
    known = load_known()
    rc = 0
    reported = []
    if viol:
        # one report per violation class, from the cheapest run that shows it
        by_class = {}
        for r in sorted(viol, key=lambda r: runner.predicted_cost(r["job"])):
            for v in r["violations"]:
                by_class.setdefault(v["class"], (r, v))
        for cls, (r, v) in list(by_class.items())[:2]:
            e = is_known(v, known)
            if e:
                continue
            log(f"violation class '{cls}' in run {r['job']['id']} (miri seed {r['job']['miri_seed']}): {v['detail']}")
            log("  minimising (search over smaller argv x seeds, same class) ...")
            mjob, mv, steps, tries = minimise(r["job"], v, sim_dir, repo)
            # final confirmation in a fresh process
            res = runner.run_job(mjob, sim_dir, repo)
            rec = evaluate(mjob, res)
            cv = _same_class(rec["violations"], v)
            if not cv:
                mjob, steps = r["job"], ["(minimised run did not replay; original kept)"]
                res = runner.run_job(mjob, sim_dir, repo)
                rec = evaluate(mjob, res)
                cv = _same_class(rec["violations"], v)
                if not cv:
                    log("HARNESS-ERROR: violation did not reproduce on re-run of the same seed — the simulation is not deterministic")
                    return 2
            path = write_replay(mjob, cv, rec.get("run"), steps, tries, r["job"], repo)
            log(f"  minimised to argv={' '.join(runner.argv_of(mjob))} seed={mjob['miri_seed']} after {tries} candidate runs ({', '.join(steps) or 'no step accepted'})")
            log(f"  {cv['detail']}")
            log(f"VIOLATION property={PROP} replay={path}")
            reported.append({"class": cls, "detail": cv["detail"], "replay": path})
            rc = 1
    for e in known:
        hit = any(is_known(v, [e]) for r in viol for v in r["violations"])
        log(f"KNOWN-FINDING: property={PROP} {e.get('what', e.get('class'))} ({'reproduced' if hit else 'not reproduced'} in this run)")
    if bad and rc == 0:
        for r in bad[:5]:
            log(f"HARNESS-ERROR: run {r['job']['id']} argv={' '.join(runner.argv_of(r['job']))} seed={r['job']['miri_seed']}: {r['status']}: {r.get('why')}")
            log("  " + "\n  ".join((r.get("stderr") or "").strip().splitlines()[-25:]))
        rc = 2
    ranks = [r["probes"]["rank"] for r in recs if r["status"] == "ok" and r.get("probes", {}).get("rank")]
    worst_rank = max(ranks, key=lambda x: x["deficiency"]) if ranks else None
    if worst_rank and worst_rank["deficiency"] >= 20:
        log(f"NOTE: (probe, not a verdict) {worst_rank['draws']} draws of n={worst_rank['n']} in one run span only {worst_rank['rank']} of {worst_rank['full_rank']} "
            f"GF(2) dimensions: the words of the generator are linearly tied to one another (every observation the property names may still hold)")
    if write_evidence:
        write_evidence_file(tier, seed, jobs, recs, audit, time.time() - t0, reported, stopped, bt, repo)
    ok = [r for r in recs if r["status"] == "ok"]
    log(f"{PROP} {tier}: {len(ok)}/{len(jobs)} runs completed, {sum(r['probes']['draws'] for r in ok if 'probes' in r)} draws, "
        f"{len(set(r['sig'] for r in ok if 'sig' in r))} distinct interleavings, violations={len(reported)}, wall={time.time() - t0:.0f}s, exit={rc}")
    return rc


def write_evidence_file(tier, seed, jobs, recs, audit, wall, reported, stopped, build_s, repo):
    ok = [r for r in recs if r["status"] == "ok" and "probes" in r]
    multi = [r for r in ok if runner.nthreads(r["job"]) + (1 if r["job"].get("warm") else 0) >= 2]
    nontrivial = set(r["sig"] for r in multi if r["probes"]["preempted_draws"] > 0)
    draws = sum(r["probes"]["draws"] for r in ok)
    pre = sum(r["probes"]["preempted_draws"] for r in multi)
    mdraws = sum(r["probes"]["draws"] for r in multi)
    per = {}
    for r in ok:
        j = r["job"]
        nt = ["L", "S"] if j["types"] == "both" else (["L"] if j["types"] == "lut" else ["S"])
        for n in j["sizes"]:
            for t in nt:
                k = f"{'Lut' if t == 'L' else 'LutN'}:n={n}:threads={j['K'] + j['main']}"
                per[k] = per.get(k, 0) + (j["K"] + j["main"]) * j["D"]
    literal = {"L1_complete": sorted(f"{r['job']['types']}:{r['job']['sizes'][0]}" for r in ok if r["job"]["kind"] == "L1"),
               "L16_complete": sorted(f"{r['job']['types']}:{r['job']['sizes'][0]}" for r in ok if r["job"]["kind"] == "L16"),
               "L16_bounded_32_draws": sorted(f"{r['job']['types']}:{r['job']['sizes'][0]}" for r in ok if r["job"]["kind"] == "L16b"),
               "P16_pooled_256": sorted(f"{r['job']['sizes'][0]}" for r in ok if r["job"]["kind"] == "P16")}
    bat = {}
    for r in ok:
        for cid, dg in r.get("battery", []):
            bat.setdefault(cid, set()).add(dg)
    bat_notes = [f"call {cid}: {len(s)} different digests" for cid, s in sorted(bat.items()) if len(s) > 1]
    for n in bat_notes:
        log(f"NOTE: schedule/history dependence observed in battery {n}; the not-applicable classification of the pure-function properties no longer holds")
    ranks = [r["probes"]["rank"] for r in ok if r["probes"].get("rank")]
    worst_rank = max(ranks, key=lambda x: x["deficiency"]) if ranks else None
    virt = sum(r.get("virt_ns", 0) for r in ok) / 1e9
    ones = sum(r["probes"]["ones"] for r in ok)
    bits = sum(r["probes"]["bits"] for r in ok)
    samples = []
    for r in sorted(ok, key=lambda r: r["job"]["id"]):
        if r["job"]["kind"] == "S" and len(samples) < 4 or r["job"]["kind"] in ("L16", "P16") and len([s for s in samples if s["kind"] != "S"]) < 1:
            samples.append({"kind": r["job"]["kind"], "argv": " ".join(runner.argv_of(r["job"])), "miri_seed": r["job"]["miri_seed"],
                            "preemption_rate": r["job"]["preempt"], "extra_flags": r["job"].get("extra_flags", []),
                            "threads_by_draw_completion_prefix": r["sig_prefix"], "first_draws": r["first_draws"],
                            "preempted_draws": r["probes"]["preempted_draws"], "draws": r["probes"]["draws"], "log_sha256": r["log_sha"][:16]})
    miri_v = subprocess.run(["cargo", "+nightly", "miri", "--version"], capture_output=True, text=True).stdout.strip()
    sim_wall = sum(r["wall"] for r in recs)
    doc = {
        "property_id": PROP, "tier": tier, "seed": seed, "level": "exploration",
        "coverage": {
            "evaluations": len(ok),
            "distinct_nontrivial": len(nontrivial),
            "rule": "One evaluation = one simulated run of K caller threads drawing random() tables, interpreted by Miri from one -Zmiri-seed "
                    "(entropy, thread schedule, weak-memory effects, addresses all derived from it) with argv drawn from VERIF_SEED. "
                    "distinct_nontrivial = number of DISTINCT interleavings (SHA-256 of the sequence of thread ids ordered by draw-completion stamp) "
                    "among runs with >= 2 threads in which at least one draw was preempted mid-call (another thread's event stamp falls inside its [start,end] stamps).",
            "samples": samples,
            "exhaustive": False,
            "runs_planned": len(jobs), "runs_completed": len(ok), "stopped_early_on_violation": bool(stopped),
            "runs_by_kind": {k: sum(1 for r in ok if r["job"]["kind"] == k) for k in sorted(set(j["kind"] for j in jobs))},
            "random_calls_simulated": draws,
            "draws_in_multi_thread_runs": mdraws,
            "draws_preempted_mid_call": pre,
            "distinct_interleavings_all_multithread_runs": len(set(r["sig"] for r in multi)),
            "simulated_time_s": round(virt, 3),
            "runs_per_hour": round(len(ok) / max(wall, 1e-9) * 3600),
            "seeds_per_hour": round(len(ok) / max(wall, 1e-9) * 3600),
            "cpu_seconds_in_simulation": round(sim_wall, 1),
            "fault_kinds_fired": {
                "entropy_seedings(one per thread that drew)": sum(runner.nthreads(r["job"]) + (1 if r["job"].get("warm") else 0) for r in ok),
                "runs_with_main_thread_warm_up_before_workers": sum(1 for r in ok if r["job"].get("warm")),
                "runs_with_coarse_clock(Instant quantised to 1ms..1s)": sum(1 for r in ok if r["job"].get("clockq")) if runner.SYSROOT else 0,
                "runs_interpreting_a_big_endian_target(s390x)": sum(1 for r in ok if r["job"].get("target") == runner.BE_TARGET),
                "runs_interpreting_a_windows_target(x86_64-pc-windows-msvc)": sum(1 for r in ok if r["job"].get("target") == runner.WIN_TARGET),
                "runs_interpreting_a_macos_aarch64_target(aarch64-apple-darwin)": sum(1 for r in ok if r["job"].get("target") == runner.MAC_TARGET),
                "runs_with_named/scoped/nested_caller_threads(spawn modes 1-5)": {str(m): sum(1 for r in ok if r["job"].get("spawn") == m) for m in range(1, 6)},
                "illegal_calls_injected_and_caught_between_draws": sum(r.get("caught_faults", [0, 0])[0] for r in ok),
                "of_which_unwound": sum(r.get("caught_faults", [0, 0])[1] for r in ok),
                "victim_threads_that_died_of_an_uncaught_panic_next_to_drawing_threads": sum(r.get("victims_died", 0) for r in ok),
                "runs_with_the_callers_own_rand_use_between_draws(ops 20-27)": sum(1 for r in ok if r["job"].get("ops") and (r["job"]["ops"] & 1 or 20 <= (r["job"]["ops"] >> 1) % plan.NOPS < 28)),
                "runs_in_which_the_wall_clock_stepped_backwards(SystemTime; 1 s .. before the epoch)": sum(1 for r in ok if r["job"].get("wallstep")) if runner.SYSROOT else 0,
                "runs_with_more_than_64_caller_threads_alive_at_once": sum(1 for r in ok if r["job"]["K"] > 64),
                "runs_with_volute_built_with_its_default_feature_set(others: default-features=false, features=[rand])": sum(1 for r in ok if r["job"].get("vdefault") and not r["job"].get("target")),
                "runs_interpreting_the_release_profile": sum(1 for r in ok if r["job"].get("release")),
                "runs_with_more_than_255_threads_over_process_life": sum(1 for r in ok if runner.nthreads(r["job"]) > 255),
                "runs_with_successive_thread_generations": sum(1 for r in ok if r["job"].get("gens", 1) > 1),
                "threads_started_after_an_earlier_thread_exited": sum(r["job"]["K"] * (r["job"].get("gens", 1) - 1) for r in ok),
                "preemption_inside_random_call": pre,
                "cooperative_yield_points": sum((r["job"]["K"] + r["job"]["main"]) * r["job"]["D"] * len(r["job"]["sizes"]) for r in ok if r["job"]["yield"]),
                "runs_with_main_thread_drawing": sum(1 for r in ok if r["job"]["main"]),
                "runs_with_other_api_calls_between_draws": sum(1 for r in ok if r["job"].get("ops")),
                "runs_with_mixed_size_call_cycles": sum(1 for r in ok if r["job"].get("cycle")),
                "runs_with_cas_failure_rate_override": sum(1 for r in ok if any("compare-exchange" in f for f in r["job"].get("extra_flags", []))),
                "runs_with_reported_cpu_count_override(default 1)": sum(1 for r in ok if any("num-cpus" in f for f in r["job"].get("extra_flags", []))),
                "runs_with_address_reuse_override": sum(1 for r in ok if any("address-reuse" in f for f in r["job"].get("extra_flags", []))),
                "reseed_threshold_crossings(64KiB per thread)": sum(1 for r in ok if runner.words_of(r["job"]) * 8 // max(1, r["job"]["K"] + r["job"]["main"]) >= 65536),
                "fault_sites_in_volute_code": 0,
                "io_errors/short_writes/crash_restart/message_loss": "not injectable: the surface has no site for them (DESIGN 3.3)",
            },
            "draws_per_type_size_threads": per,
            "literal_clauses_completed": literal,
            "probes_not_verdicts": {"ones_fraction_in_64bit_words": round(ones / bits, 6) if bits else None,
                                    "duplicate_64bit_words": sum(r["probes"]["dup_words64"] for r in ok),
                                    "gf2_rank_of_multiword_draws(worst run)": worst_rank, "runs_with_rank_probe": len(ranks),
                                    "words64": sum(r["probes"]["words64"] for r in ok)},
            "applicability_monitor": {"battery_calls": sum(r.get("battery_calls", 0) for r in ok), "call_ids": len(bat),
                                      "calls_with_more_than_one_digest": bat_notes},
            "seam_audit": audit,
            "components": {"real_code": ["volute (working tree of /repo)", "rand 0.8", "rand_chacha", "rand_core", "getrandom", "ppv-lite86", "std (threads, TLS, allocator)"],
                           "simulated_by_miri": ["OS entropy (getrandom)", "thread scheduler + preemption", "weak memory / spurious CAS failure", "clock", "heap addresses", "short stdout writes"],
                           "patched": (["std::time::Instant::now and SystemTime::now in the simulator's sysroot only (tools/build_sysroot.py): virtual clock, optionally quantised"] if runner.SYSROOT else []),
                           "stubs": []},
            "miri": {"version": miri_v, "base_flags": runner.BASE_FLAGS, "preemption_rates": plan.PREEMPT},
            "false_alarm_bound_per_check_log2": -oracles.FA_LOG2,
            "harness_errors": sum(1 for r in recs if r["status"] in ("harness", "timeout")),
            "build_s": round(build_s, 1),
            "repo_src_digest": runner.repo_digest(repo),
            "violations_reported": reported,
        },
        "assumptions": [
            "Miri's interpreter, scheduler, data-race detector and entropy shim are trusted; one -Zmiri-seed is one exactly repeatable execution (checked by `./check determinism`)",
            "blocks(), num_vars(), num_bits() are the observation points for the returned table",
            "statistical oracles: union bounds computed with exact integer arithmetic, each below 2^-210 for a fair generator",
            "a host whose entropy source fails or repeats is outside the property",
            "sampling, not proof: a clean batch covers the explored (entropy, schedule, workload shape) points only",
        ] + audit["notes"],
        "wall_s": round(wall, 2),
        "violations": len(reported),
    }
    os.makedirs(os.path.dirname(EVIDENCE), exist_ok=True)
    tmp = EVIDENCE + ".tmp"
    with open(tmp, "w") as f:
        json.dump(doc, f, indent=1)
    os.replace(tmp, EVIDENCE)


# ------------------------------------------------------------------ replay

def replay(path):
    doc = json.load(open(path))
    job = doc["job"]
    job["id"] = 0
    dig = runner.repo_digest(REPO)
    if dig != doc.get("repo_src_digest"):
        log(f"note: /repo sources differ from the tree the replay file was recorded on ({doc.get('repo_src_digest')} -> {dig})")
    sysroot_note()
    try:
        runner.build(SIM_DIR)
    except (HarnessError, subprocess.TimeoutExpired) as e:
        log(f"HARNESS-ERROR: {e}")
        return 2
    log(f"replaying argv={' '.join(runner.argv_of(job))} MIRIFLAGS={' '.join(runner.flags_of(job))}")
    res = runner.run_job(job)
    rec = evaluate(job, res)
    if rec["status"] in ("harness", "timeout"):
        log(f"HARNESS-ERROR: {rec['status']}: {rec.get('why')}")
        return 2
    for v in rec["violations"]:
        if v["class"] == doc["class"]:
            same = v["detail"] == doc["detail"]
            log(f"reproduced class '{v['class']}': {v['detail']}" + ("" if same else f"\n  (recorded detail: {doc['detail']})"))
            log(f"VIOLATION property={PROP} replay={path}")
            return 1
    if rec["violations"]:
        v = rec["violations"][0]
        log(f"recorded class '{doc['class']}' not reproduced, but class '{v['class']}' found: {v['detail']}")
        log(f"VIOLATION property={PROP} replay={path}")
        return 1
    log(f"not reproduced: the run completed and every oracle held")
    return 0


# ------------------------------------------------------------------ determinism

def determinism(n, seed, sim_dir=SIM_DIR, repo=REPO, tier="quick"):
    jobs = [j for j in plan.make_plan(seed, tier) if j["kind"] == "S"][:n]
    logs = []
    for workers in (NCPU, 5):
        out = {}
        with cf.ThreadPoolExecutor(max_workers=workers) as ex:
            for j, res in zip(jobs, ex.map(lambda j: runner.run_job(j, sim_dir, repo), jobs)):
                out[j["id"]] = (res["status"], hashlib.sha256(res["log"].encode()).hexdigest())
        logs.append(out)
    mism = [i for i in logs[0] if logs[0][i] != logs[1][i]]
    bad = [i for i in logs[0] if logs[0][i][0] != "ok"]
    distinct = len(set(v[1] for v in logs[0].values()))
    return {"runs": len(jobs), "mismatches": mism, "not_ok": bad, "distinct_logs": distinct}


# ------------------------------------------------------------------ main

def main(argv):
    seed = int(os.environ.get("VERIF_SEED", "1") or "1")
    if len(argv) >= 2 and argv[0] == PROP and argv[1] in ("quick", "thorough"):
        return run_tier(argv[1], seed)
    if len(argv) >= 3 and argv[0] == PROP and argv[1] == "--replay":
        return replay(argv[2])
    if argv and argv[0] == "determinism":
        n = int(argv[1]) if len(argv) > 1 else 32
        sysroot_note()
        try:
            runner.build(SIM_DIR)
        except HarnessError as e:
            log(f"HARNESS-ERROR: {e}")
            return 2
        r = determinism(n, seed)
        log(json.dumps(r))
        return 0 if not r["mismatches"] and not r["not_ok"] else 2
    if argv and argv[0] == "setup":
        sr = sysroot_note()
        try:
            bt = runner.build(SIM_DIR)
        except (HarnessError, subprocess.TimeoutExpired) as e:
            log(f"HARNESS-ERROR: {e}")
            return 2
        log(f"setup: sysroot={'patched-clock ' + sr if sr else 'stock'}; harness built in {bt:.1f}s")
        return 0
    if argv and argv[0] == "selftest":
        from . import selftest
        return selftest.main(argv[1:], seed)
    if len(argv) >= 2 and argv[0] == "trypatch":
        from . import selftest
        return selftest.trypatch(argv[1:], seed)
    log(__doc__ or "usage: ./check C19 quick|thorough | C19 --replay <file> | selftest | determinism [N]")
    return 2
