"""Run plan: a pure function of (VERIF_SEED, tier).  Nothing else draws from the PRNG."""
import random

from .runner import words_of

PREEMPT = [0.01, 0.03, 0.1, 0.3]
CLOCKQ = [1_000_000, 10_000_000, 100_000_000, 1_000_000_000]  # coarse simulated clock: 1 ms .. 1 s


def nwords(n):
    return 1 if n <= 6 else 1 << (n - 6)


def _job(kind, rng, **kw):
    j = {"kind": kind, "K": 1, "D": 256, "sizes": [0], "types": "lut", "order": rng.getrandbits(32),
         "yield": 0, "main": 0, "battery": 0, "preempt": 0.01, "miri_seed": rng.getrandbits(32)}
    j.update(kw)
    return j


def s_run(rng, budget_words=2600):
    """One swarm-style schedule-search run: every shape parameter is drawn per run."""
    K = rng.choice([2, 2, 3, 3, 4, 4, 8, 8, 16])
    types = rng.choice(["lut", "static", "both", "both"])
    nsz = rng.choice([1, 2, 2, 3])
    big = rng.choice([8, 8, 8, 9, 9, 10, 11, 12])
    sizes = [big]
    if nsz >= 2:
        sizes.append(rng.choice([0, 1, 2, 3, 4, 5, 5]) if rng.random() < 0.8 else rng.choice([6, 7]))
    if nsz >= 3:
        sizes.append(rng.choice([n for n in range(13) if n not in sizes]))
    D = rng.randint(4, 16)
    j = _job("S", rng, K=K, D=D, sizes=sizes, types=types, **{"yield": rng.randint(0, 1), "main": rng.randint(0, 1)},
             preempt=rng.choice(PREEMPT), warm=1 if rng.random() < 0.33 else 0)
    if K <= 4 and rng.random() < 0.3:
        j["gens"] = rng.choice([2, 3])  # thread churn: workers come in successive generations
    if rng.random() < 0.25:
        j["clockq"] = rng.choice(CLOCKQ)  # every clock read returns a multiple of the quantum
    if rng.random() < 0.3:
        j["release"] = 1  # interpret the release profile: no debug assertions, wrapping overflow
    if rng.random() < 0.25:
        j["spawn"] = rng.randint(1, 5)  # named / scoped / nested caller threads
    if rng.random() < 0.2:
        j["fault"] = rng.randint(1, 3)  # caught illegal calls between draws and/or a victim thread that dies
    wall = rng.random() < 0.1, rng.uniform(0.05, 0.5), rng.choice([1, 3600, 400 * 86400, 2_000_000_000])
    if rng.random() < 0.25:
        j["vdefault"] = 1  # volute built with its DEFAULT feature set (the other runs: default-features = false, features = ["rand"])
    # keep the run inside the per-run budget: first shrink the biggest size, then D
    while words_of(j) > budget_words:
        m = max(j["sizes"])
        if m > 8:
            j["sizes"] = [n if n != m else m - 1 for n in j["sizes"]]
            j["sizes"] = list(dict.fromkeys(j["sizes"]))
        elif j["D"] > 4:
            j["D"] -= 1
        else:
            break
    if j["K"] <= 4 and rng.random() < 0.125:
        j["battery"] = 1
    if wall[0]:
        from .runner import predicted_cost
        j["wallstep"] = [int((0.4 + wall[1]) * predicted_cost(j) * 1e9), wall[2]]  # the wall clock steps backwards during the run
    if rng.random() < 0.25:
        j["ops"] = rng.getrandbits(31) | 1  # other public API calls between the draws
    if rng.random() < 0.25:
        j["extra_flags"] = [rng.choice(["-Zmiri-compare-exchange-weak-failure-rate=0.2",
                                        "-Zmiri-address-reuse-cross-thread-rate=0.5",
                                        "-Zmiri-address-reuse-rate=0.9",
                                        "-Zmiri-num-cpus=2", "-Zmiri-num-cpus=4", "-Zmiri-num-cpus=16"])]
    return j


def m_run(rng, reps):
    """Mixed-size cycle: every thread repeats a short cycle of typed calls `reps` times, so draws of
    different sizes (and of Lut / LutN) interleave on one thread; oracles group by call site."""
    P = rng.choice([2, 3, 3, 4, 4, 5, 6])
    while True:
        cyc = [(rng.choice("LS"), rng.choice([0, 1, 2, 3, 4, 5, 0, 1, 2, 3, 4, 5, 6, 7, 8])) for _ in range(P)]
        if sum(nwords(n) for _, n in cyc) <= 8 and len(set(cyc)) > 1:
            break
    kmax = max(1, 8 // P)
    K = rng.randint(1, min(3, kmax))
    main = rng.randint(0, 1) if K > 1 or P <= 4 else 0
    j = _job("M", rng, K=K - main if K > 1 else K, main=main if K > 1 else 0, D=reps, sizes=sorted(set(n for _, n in cyc)), cycle=cyc, types="both",
             warm=rng.randint(0, 1),
             preempt=rng.choice(PREEMPT), **{"yield": rng.randint(0, 1)})
    if rng.random() < 0.25:
        j["ops"] = rng.getrandbits(31) | 1
    if rng.random() < 0.3:
        j["release"] = 1
    return j


NOPS = 37  # keep in step with sim/src/ops.rs (20..27: the caller's own use of the rand crate)


def g_run(rng):
    """Thread churn: G successive generations of K short-lived threads (each joined before the next
    starts) draw a few multi-word tables; half of the runs push Miri's address-reuse rates to 1."""
    # D is mostly odd: a thread then exits in the middle of any 64-word batch a generator may keep
    j = _job("G", rng, K=rng.choice([1, 2, 4]), gens=rng.choice([3, 4, 6]), D=rng.choice([3, 4, 5, 7, 8]), sizes=[rng.choice([7, 8, 8, 9])],
             types=rng.choice(["lut", "static", "both"]), main=rng.randint(0, 1), warm=rng.randint(0, 1), preempt=rng.choice(PREEMPT),
             **{"yield": rng.randint(0, 1)})
    if rng.random() < 0.5:
        j["extra_flags"] = ["-Zmiri-address-reuse-rate=1.0", "-Zmiri-address-reuse-cross-thread-rate=1.0"]
    if rng.random() < 0.5:
        j["clockq"] = rng.choice(CLOCKQ)
    if rng.random() < 0.3:
        j["release"] = 1
    if rng.random() < 0.25:
        j["vdefault"] = 1
    return j


def t_run(rng, k, gens):
    """Many threads over the life of the process: `gens` generations of `k` threads (more than 255 in
    total for the larger shapes), two multi-word draws each."""
    j = _job("T", rng, K=k, gens=gens, D=2, sizes=[rng.choice([7, 8])], types=rng.choice(["lut", "static"]), main=0,
             warm=rng.randint(0, 1), preempt=rng.choice(PREEMPT), release=rng.randint(0, 1), **{"yield": rng.randint(0, 1)})
    if k > 16:
        j["bar"] = 1  # all k workers of a generation are alive, each having drawn once, before any makes its second draw
    return j


def c_run(rng):
    """Coarse clock: many threads start together and draw a few multi-word tables while every clock read
    (Instant, SystemTime) returns a multiple of a large quantum, so threads observe equal timestamps."""
    return _job("C", rng, K=rng.choice([2, 4, 8, 16]), D=rng.choice([2, 4, 8]), sizes=[rng.choice([7, 8, 8, 9])],
                types=rng.choice(["lut", "static", "both"]), main=rng.randint(0, 1), warm=rng.randint(0, 1), preempt=rng.choice(PREEMPT),
                clockq=rng.choice(CLOCKQ[1:]), gens=rng.choice([1, 1, 2]), **{"yield": rng.randint(0, 1)})


WALL_BACK_S = [1, 3600, 400 * 86400, 2_000_000_000]  # one second .. further back than the UNIX epoch


def k_run(rng):
    """Clock faults: the wall clock (SystemTime) is stepped backwards once, somewhere in the middle of the run
    (by a second, an hour, a year, or to before the UNIX epoch), optionally on top of a coarse clock; Instant stays
    monotonic, as its contract says."""
    j = _job("K", rng, K=rng.choice([1, 2, 2]), D=rng.choice([96, 128]), sizes=[rng.choice([7, 8]), rng.choice([0, 2, 5, 6])],
             types=rng.choice(["lut", "static", "both"]), main=rng.randint(0, 1), warm=rng.randint(0, 1), preempt=rng.choice(PREEMPT),
             gens=rng.choice([1, 1, 2]), **{"yield": rng.randint(0, 1)})
    if rng.random() < 0.5:
        j["clockq"] = rng.choice(CLOCKQ)
    from .runner import predicted_cost
    # the simulated clock runs at about 1.3-1.7x the predicted wall-clock cost of a run: the step lands in the middle
    # third of the run, seconds of simulated time after the threads were born and seconds before they finish
    j["wallstep"] = [int(rng.uniform(0.45, 0.9) * predicted_cost(j) * 1e9), rng.choice(WALL_BACK_S)]
    return j


def o_run(rng, op):
    """Op sweep: the same other public API call after EVERY draw, 256 draws per size and type."""
    sizes = [rng.choice([2, 3, 4, 5, 6, 0, 1, 7, 3, 4, 5, 6])]
    ops = 2 * (op + NOPS * (1 + rng.randrange(63)))  # even seed = fixed mode: op = (ops/2) % NOPS, arg = (ops/2) / NOPS
    k, m = rng.choice([(1, 0), (0, 1), (1, 1)])
    # op 36 (canonization of a multi-word constant operand) costs ~0.1 s of interpretation per call: 64 draws per type
    return _job("O", rng, K=k, main=m, D=256 if op != 36 else 64, sizes=sizes, types="both", ops=ops, warm=rng.randint(0, 1) if k else 0, release=1 if rng.random() < 0.3 else 0,
                preempt=rng.choice(PREEMPT), **{"yield": rng.randint(0, 1)})


BE_TARGET = "s390x-unknown-linux-gnu"
WIN_TARGET = "x86_64-pc-windows-msvc"
MAC_TARGET = "aarch64-apple-darwin"
OS_TARGETS = [WIN_TARGET, MAC_TARGET]


def n_run(rng, spawn=None):
    """Thread creation: the caller threads carry the same name (thread pools), reuse names across generations, are
    scoped threads, or are spawned by a thread other than main; a few multi-word draws each."""
    return _job("N", rng, K=rng.choice([2, 4, 8, 16]), D=rng.choice([3, 4, 6, 8]), sizes=[rng.choice([7, 8, 8, 9]), rng.choice([2, 4, 6])],
                types=rng.choice(["lut", "static", "both"]), main=rng.randint(0, 1), warm=rng.randint(0, 1), preempt=rng.choice(PREEMPT),
                gens=rng.choice([1, 2, 3]), spawn=spawn or rng.randint(1, 5), release=1 if rng.random() < 0.3 else 0, **{"yield": rng.randint(0, 1)})


def f_run(rng, fault=None):
    """Caller-side faults: illegal calls of other volute functions (documented panics) caught between the draws,
    and/or a victim thread per generation that draws next to the workers and then dies of an uncaught one."""
    j = _job("F", rng, K=rng.choice([1, 2, 4, 8]), D=rng.choice([8, 12, 16, 24]), sizes=[rng.choice([7, 8, 8, 9]), rng.choice([0, 1, 3, 5, 6])],
             types=rng.choice(["lut", "static", "both"]), main=rng.randint(0, 1), warm=rng.randint(0, 1), preempt=rng.choice(PREEMPT),
             gens=rng.choice([1, 2, 3, 4]), fault=fault or rng.randint(1, 3), release=1 if rng.random() < 0.3 else 0, **{"yield": rng.randint(0, 1)})
    if rng.random() < 0.3:
        j["spawn"] = rng.randint(1, 5)
    if rng.random() < 0.3:
        j["ops"] = rng.getrandbits(31) | 1
    return j


def y_runs(rng, target, quick):
    """Other-OS lanes (Windows, macOS/aarch64): the single-thread clause on some (quick) or all (thorough) sizes, and
    the multi-thread shapes that depend on what the OS provides: thread identity and naming, thread-local storage
    and its destructors (churn), clocks (coarse), entropy."""
    out = []
    sizes = (0, 3, 6, 7, 9) if quick else range(13)
    for typ in ("lut", "static"):
        for n in sizes:
            k, m = rng.choice([(0, 1), (1, 0)])
            out.append(_job("Y", rng, K=k, main=m, warm=rng.randint(0, 1) if k else 0, D=256, sizes=[n], types=typ, preempt=rng.choice(PREEMPT)))
    reps = 1 if quick else 6
    for _ in range(reps):
        out.append(_job("Y", rng, K=16, D=16, sizes=[7], types="both", preempt=rng.choice(PREEMPT), **{"yield": rng.randint(0, 1)}))
        for mk in (c_run, g_run, c_run, g_run, n_run, n_run, f_run):
            j = mk(rng)
            j.pop("extra_flags", None)
            out.append(j)
        for _ in range(2):
            j = s_run(rng, budget_words=1200)
            out.append(j)
    for j in out:
        j["kind"], j["target"] = "Y", target
        j.pop("release", None)
    return out


def x_run(rng):
    """Cross-size: a short cycle that contains one of the LARGEST tables (n = 11, 12) next to smaller ones, a few
    repetitions — what a draw of one size leaves behind for a draw of another size (the swarm runs trim
    n = 12 away to stay in budget, and the one-size-at-a-time runs never mix)."""
    big = rng.choice([12, 12, 11])
    cyc = [(rng.choice("LS"), big)] + [(rng.choice("LS"), rng.choice([0, 3, 5, 6, 7, 8, 9, 10, 11])) for _ in range(rng.choice([1, 2, 3]))]
    rng.shuffle(cyc)
    k, m = rng.choice([(1, 0), (0, 1), (2, 0), (1, 1)])
    return _job("X", rng, K=k, main=m, D=rng.choice([3, 4, 6]), sizes=sorted(set(n for _, n in cyc)), cycle=cyc, types="both",
                warm=rng.randint(0, 1), preempt=rng.choice(PREEMPT), release=1 if rng.random() < 0.3 else 0, **{"yield": rng.randint(0, 1)})


def b_run(rng, typ, n):
    """Big-endian lane: the single-thread clause interpreted for a big-endian target (s390x)."""
    return _job("B", rng, K=1, main=0, warm=rng.randint(0, 1), D=256, sizes=[n], types=typ, preempt=rng.choice(PREEMPT), target=BE_TARGET)


def make_plan(seed, tier):
    rng = random.Random(seed)
    jobs = []
    # L1 — the literal single-thread clause, complete: 256 draws, every size, both types.
    for typ in ("lut", "static"):
        for n in range(13):
            # "1 thread", in both caller contexts: (A) a lone spawned thread that is NOT the first caller in the
            # process (the main thread made one warm-up draw before it), and (B) the first caller — the main
            # thread itself or a lone spawned thread, seed-chosen
            jobs.append(_job("L1", rng, K=1, main=0, warm=1, D=256, sizes=[n], types=typ, preempt=rng.choice(PREEMPT)))
            k, m = rng.choice([(0, 1), (1, 0)])
            jobs.append(_job("L1", rng, K=k, main=m, warm=0, D=256, sizes=[n], types=typ, preempt=rng.choice(PREEMPT), release=1))
    combos = [(typ, n) for typ in ("lut", "static") for n in range(13)]
    if tier == "quick":
        # L16 — the literal 16-thread clause on a seed-chosen 4 of the 14 single-word combinations
        small = [(t, n) for (t, n) in combos if n <= 6]
        for typ, n in rng.sample(small, 4):
            jobs.append(_job("L16", rng, K=16, D=256, sizes=[n], types=typ, preempt=rng.choice(PREEMPT), **{"yield": rng.randint(0, 1)}))
        # P16 — 16 threads x 16 draws x both types on multi-word sizes: 256 draws per type when pooled
        for n in (7, 8, 9):
            jobs.append(_job("P16", rng, K=16, D=16, sizes=[n], types="both", preempt=rng.choice(PREEMPT), **{"yield": rng.randint(0, 1)}))
        # H — long history: 2 threads walk sizes 0..8 in different orders, 256 draws per size and type
        # (4608 random() calls per thread), so call-count- and order-dependent state is exercised
        jobs.append(_job("H", rng, K=1, main=1, D=256, sizes=list(range(9)), types="both", preempt=rng.choice(PREEMPT), **{"yield": rng.randint(0, 1)}))
        # M — mixed-size cycles, 1024 repetitions: call-context groups up to every 4th repetition
        for _ in range(8):
            jobs.append(m_run(rng, 1024))
        # O — every neighbour operation once, after every draw
        for op in range(NOPS):
            jobs.append(o_run(rng, op))
        # G — thread churn
        for _ in range(6):
            jobs.append(g_run(rng))
        # C — coarse clock
        for _ in range(6):
            jobs.append(c_run(rng))
        # T — more than 255 threads over the life of the process; more than 64 caller threads alive at once
        jobs.append(t_run(rng, 16, 17))
        jobs.append(t_run(rng, 72, 1))
        # K — clock faults: the wall clock steps backwards during the run
        for _ in range(4):
            jobs.append(k_run(rng))
        # X — cross-size cycles around the largest tables
        for _ in range(8):
            jobs.append(x_run(rng))
        # B — big-endian target: every single-word size and the first multi-word sizes, both types, plus two swarm runs
        for typ in ("lut", "static"):
            for n in range(9):
                jobs.append(b_run(rng, typ, n))
        for _ in range(2):
            j = s_run(rng, budget_words=1200)
            j["kind"], j["target"] = "B", BE_TARGET
            j.pop("release", None)
            jobs.append(j)
        # N — how the caller threads were created: every mode twice
        for sp in (1, 2, 3, 4, 5, 1, 2, 3, 4, 5):
            jobs.append(n_run(rng, sp))
        # F — caller-side faults: caught illegal calls, dying victim threads, both
        for fl in (1, 2, 3, 1, 2, 3, 2, 3):
            jobs.append(f_run(rng, fl))
        # Y — other operating systems / architectures
        for t in OS_TARGETS:
            jobs.extend(y_runs(rng, t, True))
        n_s = 64
    else:
        for typ, n in combos:
            # the literal 16-thread clause for EVERY size (n = 12: 262 144 words in one run, about an hour of interpretation)
            jobs.append(_job("L16", rng, K=16, D=256, sizes=[n], types=typ, preempt=rng.choice(PREEMPT), **{"yield": rng.randint(0, 1)}))
        for n in (7, 8, 9, 10):
            jobs.append(_job("P16", rng, K=16, D=16, sizes=[n], types="both", preempt=rng.choice(PREEMPT), **{"yield": rng.randint(0, 1)}))
        jobs.append(_job("H", rng, K=1, main=1, D=256, sizes=list(range(13)), types="both", preempt=rng.choice(PREEMPT), **{"yield": rng.randint(0, 1)}))
        for _ in range(6):
            sz = sorted(rng.sample(range(11), rng.randint(5, 9)))
            jobs.append(_job("H", rng, K=rng.choice([2, 3, 4]), main=rng.randint(0, 1), D=256, sizes=sz, types=rng.choice(["lut", "static", "both"]),
                             preempt=rng.choice(PREEMPT), **{"yield": rng.randint(0, 1)}))
        for _ in range(48):
            jobs.append(m_run(rng, 2048))
        for rep in range(3):
            for op in range(NOPS):
                jobs.append(o_run(rng, op))
        for _ in range(48):
            jobs.append(g_run(rng))
        for _ in range(48):
            jobs.append(c_run(rng))
        for k, g in ((16, 17), (16, 33), (8, 40), (4, 70), (2, 130), (1, 260), (72, 1), (72, 3), (136, 1), (40, 4)):
            jobs.append(t_run(rng, k, g))
        for _ in range(32):
            jobs.append(k_run(rng))
        for _ in range(64):
            jobs.append(x_run(rng))
        for typ in ("lut", "static"):
            for n in range(13):
                jobs.append(b_run(rng, typ, n))
        for _ in range(16):
            j = s_run(rng, budget_words=1200)
            j["kind"], j["target"] = "B", BE_TARGET
            j.pop("release", None)
            jobs.append(j)
        for _ in range(60):
            jobs.append(n_run(rng))
        for _ in range(60):
            jobs.append(f_run(rng))
        for t in OS_TARGETS:
            jobs.extend(y_runs(rng, t, False))
        # W — wide and long: 16k single-word draws under contention (several 64 KiB-of-output boundaries of any
        # process-wide generator state fall inside the run)
        for i in range(16):
            k = (16, 8)[i % 2]
            jobs.append(_job("W", rng, K=k, D=16384 // k, sizes=[6], types=("lut", "static")[(i // 2) % 2], preempt=PREEMPT[i % 4],
                             warm=rng.randint(0, 1), **{"yield": rng.randint(0, 1)}))
        # L4 — the two largest sizes with 256 draws on each of 4 threads that are not the first caller
        for typ in ("lut", "static"):
            for n in (11, 12):
                jobs.append(_job("L4", rng, K=4, warm=1, D=256, sizes=[n], types=typ, preempt=rng.choice(PREEMPT), **{"yield": rng.randint(0, 1)}))
        n_s = 768
    for _ in range(n_s):
        jobs.append(s_run(rng))
    for i, j in enumerate(jobs):
        j["id"] = i
    return jobs
