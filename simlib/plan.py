"""Run plan: a pure function of (VERIF_SEED, tier).  Nothing else draws from the PRNG."""
import random

from .runner import words_of

PREEMPT = [0.01, 0.03, 0.1, 0.3]


def nwords(n):
    return 1 if n <= 6 else 1 << (n - 6)


def _job(kind, rng, **kw):
    j = {"kind": kind, "K": 1, "D": 256, "sizes": [0], "types": "lut", "order": rng.getrandbits(32),
         "yield": 0, "main": 0, "battery": 0, "preempt": 0.01, "miri_seed": rng.getrandbits(32)}
    j.update(kw)
    return j


def s_run(rng, budget_words=2600):
    """One swarm-style schedule-search run: every shape parameter is drawn per run."""
    K = rng.choice([2, 2, 3, 3, 4, 4, 8, 8, 16])
    types = rng.choice(["lut", "static", "both", "both"])
    nsz = rng.choice([1, 2, 2, 3])
    big = rng.choice([8, 8, 8, 9, 9, 10, 11, 12])
    sizes = [big]
    if nsz >= 2:
        sizes.append(rng.choice([0, 1, 2, 3, 4, 5, 5]) if rng.random() < 0.8 else rng.choice([6, 7]))
    if nsz >= 3:
        sizes.append(rng.choice([n for n in range(13) if n not in sizes]))
    D = rng.randint(4, 16)
    j = _job("S", rng, K=K, D=D, sizes=sizes, types=types, **{"yield": rng.randint(0, 1), "main": rng.randint(0, 1)},
             preempt=rng.choice(PREEMPT))
    # keep the run inside the per-run budget: first shrink the biggest size, then D
    while words_of(j) > budget_words:
        m = max(j["sizes"])
        if m > 8:
            j["sizes"] = [n if n != m else m - 1 for n in j["sizes"]]
            j["sizes"] = list(dict.fromkeys(j["sizes"]))
        elif j["D"] > 4:
            j["D"] -= 1
        else:
            break
    if j["K"] <= 4 and rng.random() < 0.125:
        j["battery"] = 1
    if rng.random() < 0.25:
        j["extra_flags"] = [rng.choice(["-Zmiri-compare-exchange-weak-failure-rate=0.2",
                                        "-Zmiri-address-reuse-cross-thread-rate=0.5",
                                        "-Zmiri-address-reuse-rate=0.9"])]
    return j


def make_plan(seed, tier):
    rng = random.Random(seed)
    jobs = []
    # L1 — the literal single-thread clause, complete: 256 draws, every size, both types.
    for typ in ("lut", "static"):
        for n in range(13):
            on_main = rng.random() < 0.5  # "1 thread" = the main thread or a lone spawned thread
            jobs.append(_job("L1", rng, K=0 if on_main else 1, main=1 if on_main else 0, D=256, sizes=[n], types=typ,
                             preempt=rng.choice(PREEMPT)))
    combos = [(typ, n) for typ in ("lut", "static") for n in range(13)]
    if tier == "quick":
        # L16 — the literal 16-thread clause on a seed-chosen 4 of the 14 single-word combinations
        small = [(t, n) for (t, n) in combos if n <= 6]
        for typ, n in rng.sample(small, 4):
            jobs.append(_job("L16", rng, K=16, D=256, sizes=[n], types=typ, preempt=rng.choice(PREEMPT), **{"yield": rng.randint(0, 1)}))
        # P16 — 16 threads x 16 draws x both types on multi-word sizes: 256 draws per type when pooled
        for n in (7, 8, 9):
            jobs.append(_job("P16", rng, K=16, D=16, sizes=[n], types="both", preempt=rng.choice(PREEMPT), **{"yield": rng.randint(0, 1)}))
        n_s = 64
    else:
        for typ, n in combos:
            if n <= 10:
                jobs.append(_job("L16", rng, K=16, D=256, sizes=[n], types=typ, preempt=rng.choice(PREEMPT), **{"yield": rng.randint(0, 1)}))
            else:
                # stated bound: n = 11, 12 at 16 threads x 32 draws (pooled 512 draws per type)
                jobs.append(_job("L16b", rng, K=16, D=32, sizes=[n], types=typ, preempt=rng.choice(PREEMPT), **{"yield": rng.randint(0, 1)}))
        for n in (7, 8, 9, 10):
            jobs.append(_job("P16", rng, K=16, D=16, sizes=[n], types="both", preempt=rng.choice(PREEMPT), **{"yield": rng.randint(0, 1)}))
        n_s = 768
    for _ in range(n_s):
        jobs.append(s_run(rng))
    for i, j in enumerate(jobs):
        j["id"] = i
    return jobs
