"""Self-test of the machinery (not part of quick/thorough).

Sensitivity: property-breaking changes to fill_random are applied to a scratch
copy of /repo (never /repo itself); the mini batch must report the expected
violation class.  Specificity: property-preserving rewrites (controls) and the
unchanged tree must stay silent.  Determinism: N seeds run twice at two worker
counts, raw logs diffed.  The scratch copy and its build output are removed.
"""
import json
import os
import re
import shutil
import sys
import time

from . import driver, plan, runner
from .driver import log

ORIG = """pub fn fill_random(num_vars: usize, table: &mut [u64]) {
    use rand::RngCore;
    for t in table {
        *t = rand::thread_rng().next_u64() & num_vars_mask(num_vars);
    }
}"""

MUTANTS = [
    # name, expected classes (None = control: must be silent), replacement body
    ("unchanged", None, ORIG),
    ("no_mask", {"malformed"}, """pub fn fill_random(num_vars: usize, table: &mut [u64]) {
    use rand::RngCore;
    let _ = num_vars;
    for t in table {
        *t = rand::thread_rng().next_u64();
    }
}"""),
    ("first_word_only", {"stuck", "duplicates"}, """pub fn fill_random(num_vars: usize, table: &mut [u64]) {
    use rand::RngCore;
    for t in table.iter_mut().take(1) {
        *t = rand::thread_rng().next_u64() & num_vars_mask(num_vars);
    }
}"""),
    ("const_seed_per_call", {"same_sequence", "duplicates", "stuck"}, """pub fn fill_random(num_vars: usize, table: &mut [u64]) {
    use rand::{RngCore, SeedableRng};
    let mut rng = rand::rngs::StdRng::seed_from_u64(42);
    for t in table {
        *t = rng.next_u64() & num_vars_mask(num_vars);
    }
}"""),
    ("tls_const_seed", {"duplicates", "same_sequence"}, """pub fn fill_random(num_vars: usize, table: &mut [u64]) {
    use rand::{RngCore, SeedableRng};
    thread_local! { static R: std::cell::RefCell<rand::rngs::StdRng> = std::cell::RefCell::new(rand::rngs::StdRng::seed_from_u64(7)); }
    for t in table {
        *t = R.with(|r| r.borrow_mut().next_u64()) & num_vars_mask(num_vars);
    }
}"""),
    ("racy_global_xorshift", {"duplicates", "same_sequence"}, """pub fn fill_random(num_vars: usize, table: &mut [u64]) {
    use rand::RngCore;
    use std::sync::atomic::{AtomicU64, Ordering};
    static S: AtomicU64 = AtomicU64::new(0);
    for t in table {
        let mut x = S.load(Ordering::Relaxed);
        if x == 0 { x = rand::thread_rng().next_u64() | 1; }
        x ^= x << 13; x ^= x >> 7; x ^= x << 17;
        S.store(x, Ordering::Relaxed);
        *t = x.wrapping_mul(0x2545F4914F6CDD1D) & num_vars_mask(num_vars);
    }
}"""),
    ("static_mut_state", {"ub", "duplicates"}, """pub fn fill_random(num_vars: usize, table: &mut [u64]) {
    use rand::RngCore;
    static mut S: u64 = 0;
    for t in table {
        #[allow(static_mut_refs)]
        unsafe {
            let mut x = S;
            if x == 0 { x = rand::thread_rng().next_u64() | 1; }
            x ^= x << 13; x ^= x >> 7; x ^= x << 17;
            S = x;
            *t = x.wrapping_mul(0x2545F4914F6CDD1D) & num_vars_mask(num_vars);
        }
    }
}"""),
    ("zero_in_spawned_threads_for_multiword", {"stuck", "duplicates", "same_sequence"}, """pub fn fill_random(num_vars: usize, table: &mut [u64]) {
    use rand::RngCore;
    let main = std::thread::current().name() == Some("main");
    let nw = table.len();
    for (i, t) in table.iter_mut().enumerate() {
        let w = rand::thread_rng().next_u64();
        *t = if !main && nw > 1 && i == nw - 1 { 0 } else { w } & num_vars_mask(num_vars);
    }
}"""),
    ("uninit_last_word_of_big_tables", {"ub"}, """pub fn fill_random(num_vars: usize, table: &mut [u64]) {
    use rand::RngCore;
    let n = table.len();
    let mut buf: Vec<u64> = Vec::with_capacity(n);
    #[allow(clippy::uninit_vec)]
    unsafe {
        buf.set_len(n);
    }
    // "bulk fill" that forgets the last word of big tables
    let filled = if n > 16 { n - 1 } else { n };
    for t in buf.iter_mut().take(filled) {
        *t = rand::thread_rng().next_u64() & num_vars_mask(num_vars);
    }
    table.copy_from_slice(&buf);
}"""),
    ("panic_on_rare_word", {"panicked"}, """pub fn fill_random(num_vars: usize, table: &mut [u64]) {
    use rand::RngCore;
    for t in table {
        let w = rand::thread_rng().next_u64();
        assert!(w & 0x3ff != 0x155, "unlucky word");
        *t = w & num_vars_mask(num_vars);
    }
}"""),
    ("spin_on_rare_word", {"hang"}, """pub fn fill_random(num_vars: usize, table: &mut [u64]) {
    use rand::RngCore;
    for t in table {
        let mut w = rand::thread_rng().next_u64();
        // "rejection sampling" that can never succeed once it is entered
        while w & 0x3ff == 0x155 {
            w |= 0x155;
            std::hint::spin_loop();
        }
        *t = w & num_vars_mask(num_vars);
    }
}"""),
    ("relock_global_mutex", {"deadlock", "hang", "panicked"}, """pub fn fill_random(num_vars: usize, table: &mut [u64]) {
    use rand::{RngCore, SeedableRng};
    use std::sync::Mutex;
    static R: Mutex<Option<rand::rngs::StdRng>> = Mutex::new(None);
    let mut g = R.lock().unwrap();
    let rng = g.get_or_insert_with(rand::rngs::StdRng::from_entropy);
    if table.len() > 8 {
        // "reuse the single-word path for the first word" while still holding the lock
        let (a, b) = table.split_at_mut(1);
        fill_random(6, a);
        for t in b {
            *t = rng.next_u64() & num_vars_mask(num_vars);
        }
        return;
    }
    for t in table {
        *t = rng.next_u64() & num_vars_mask(num_vars);
    }
}"""),
    ("ctl_global_mutex_rng", None, """pub fn fill_random(num_vars: usize, table: &mut [u64]) {
    use rand::{RngCore, SeedableRng};
    use std::sync::Mutex;
    static R: Mutex<Option<rand::rngs::StdRng>> = Mutex::new(None);
    let mut g = R.lock().unwrap();
    let rng = g.get_or_insert_with(rand::rngs::StdRng::from_entropy);
    for t in table {
        *t = rng.next_u64() & num_vars_mask(num_vars);
    }
}"""),
    ("ctl_atomic_cas_loop", None, """pub fn fill_random(num_vars: usize, table: &mut [u64]) {
    use rand::RngCore;
    use std::sync::atomic::{AtomicU64, Ordering};
    static S: AtomicU64 = AtomicU64::new(0);
    let _ = S.compare_exchange(0, rand::thread_rng().next_u64() | 1, Ordering::Relaxed, Ordering::Relaxed);
    for t in table {
        let mut x = S.load(Ordering::Relaxed);
        let nx = loop {
            let mut y = x;
            y ^= y << 13; y ^= y >> 7; y ^= y << 17;
            match S.compare_exchange_weak(x, y, Ordering::Relaxed, Ordering::Relaxed) {
                Ok(_) => break y,
                Err(cur) => x = cur,
            }
        };
        *t = nx.wrapping_mul(0x2545F4914F6CDD1D) & num_vars_mask(num_vars);
    }
}"""),
]


def mini_plan(seed):
    import random
    rng = random.Random(seed)
    jobs = []
    for typ, n, main in (("lut", 3, 0), ("static", 7, 0), ("lut", 8, 1)):
        jobs.append(plan._job("L1", rng, K=0 if main else 1, main=main, D=256, sizes=[n], types=typ, preempt=0.03))
    jobs.append(plan._job("P16", rng, K=16, D=16, sizes=[7], types="both", preempt=0.03))
    for _ in range(24):
        jobs.append(plan.s_run(rng, budget_words=1200))
    for i, j in enumerate(jobs):
        j["id"] = i
    return jobs


def make_scratch(tag):
    root = f"/root/verif-scratch-{os.getpid()}-{tag}"
    shutil.rmtree(root, ignore_errors=True)
    os.makedirs(root)
    repo = os.path.join(root, "repo")
    shutil.copytree(runner.REPO, repo, ignore=shutil.ignore_patterns("target", ".git"))
    sim = os.path.join(root, "sim")
    shutil.copytree(runner.SIM_DIR, sim, ignore=shutil.ignore_patterns("target", "target-*"))
    ct = open(os.path.join(sim, "Cargo.toml")).read()
    assert 'path = "/repo"' in ct
    open(os.path.join(sim, "Cargo.toml"), "w").write(ct.replace('path = "/repo"', f'path = "{repo}"'))
    return root, repo, sim


def main(argv, seed):
    driver.sysroot_note()
    fast = "--fast" in argv
    only = [a for a in argv if not a.startswith("--")]
    root, repo, sim = make_scratch("selftest")
    driver.REPLAYS = os.path.join(root, "replays")
    ops = os.path.join(repo, "src", "operations.rs")
    pristine = open(ops).read()
    if ORIG not in pristine:
        log("HARNESS-ERROR: selftest: fill_random in /repo no longer matches the text the mutants are written against")
        shutil.rmtree(root, ignore_errors=True)
        return 2
    results = []
    ok = True
    try:
        for name, expect, body in MUTANTS:
            if only and name not in only:
                continue
            if fast and name not in ("unchanged", "no_mask", "racy_global_xorshift", "spin_on_rare_word", "ctl_atomic_cas_loop"):
                continue
            open(ops, "w").write(pristine.replace(ORIG, body))
            t0 = time.time()
            log(f"=== selftest mutant {name} (expect {'silence' if expect is None else sorted(expect)})")
            rc = driver.run_tier("quick", seed, sim_dir=sim, repo=repo, write_evidence=False, jobs=mini_plan(seed))
            classes = set()
            rp_ok = None
            if os.path.isdir(driver.REPLAYS):
                for f in sorted(os.listdir(driver.REPLAYS)):
                    doc = json.load(open(os.path.join(driver.REPLAYS, f)))
                    classes.add(doc["class"])
                    os.remove(os.path.join(driver.REPLAYS, f))
            if expect is None:
                good = rc == 0 and not classes
            else:
                good = rc == 1 and bool(classes & expect)
            results.append({"mutant": name, "expected": None if expect is None else sorted(expect), "exit": rc, "classes": sorted(classes), "ok": good, "wall_s": round(time.time() - t0, 1)})
            log(f"=== {name}: exit={rc} classes={sorted(classes)} -> {'OK' if good else 'UNEXPECTED'}")
            ok &= good
        if not only and not fast:
            open(ops, "w").write(pristine)
            runner.build(sim)
            d = driver.determinism(24, seed, sim_dir=sim, repo=repo)
            log(f"=== determinism: {json.dumps(d)}")
            results.append({"determinism": d})
            ok &= not d["mismatches"] and not d["not_ok"]
    finally:
        shutil.rmtree(root, ignore_errors=True)
    log(json.dumps(results, indent=1))
    log("SELFTEST " + ("PASSED" if ok else "FAILED"))
    return 0 if ok else 2


def trypatch(argv, seed):
    """./check trypatch <patch.diff> [quick|thorough|mini] — run a tier against a scratch copy of /repo
    with the patch applied (nothing in /repo or /verif/evidence is touched)."""
    import subprocess
    patch = os.path.abspath(argv[0])
    tier = argv[1] if len(argv) > 1 else "quick"
    driver.sysroot_note()
    root, repo, sim = make_scratch("trypatch")
    keep = os.environ.get("VERIF_REPLAY_DIR") or os.path.join(runner.VERIF, "work", "trypatch-replays")
    shutil.rmtree(keep, ignore_errors=True)
    driver.REPLAYS = keep
    try:
        p = subprocess.run(["patch", "-p1", "-i", patch], cwd=repo, capture_output=True, text=True)
        if p.returncode != 0:
            log("HARNESS-ERROR: patch does not apply: " + p.stdout + p.stderr)
            return 2
        if tier == "mini":
            return driver.run_tier("quick", seed, sim_dir=sim, repo=repo, write_evidence=False, jobs=mini_plan(seed))
        return driver.run_tier(tier, seed, sim_dir=sim, repo=repo, write_evidence=False)
    finally:
        shutil.rmtree(root, ignore_errors=True)
