"""History oracles for property C19 (DESIGN §3.4).

Input: the parsed log of one simulated run (see simlib.runner.parse_log).
Output: a list of violations, each {class, detail, key, threads, n, typ}.

Every verdict check has a false-alarm probability below 2^-210 for a fair
generator (the property fixes 2^-200; the slack pays for the union over the
checks of one batch).  Thresholds are computed exactly with big integers for
the number of draws actually present — nothing here is a tuned constant.
"""
from fractions import Fraction
from functools import lru_cache
from math import comb

FA_LOG2 = 232  # every single check: FA < 2^-FA_LOG2; a batch of up to 2^32 checks stays below the property's 2^-200
QMAX = 8        # call-context groups: draws of one call site taken every q-th repetition, q = 1..QMAX

W_BLOCKS, W_HIGH, W_NUMVARS, W_NUMBITS, W_PANIC, W_CHANGED = 1, 2, 4, 8, 16, 32
WARN_NAMES = {W_BLOCKS: "block_count", W_HIGH: "bit_beyond_2^n", W_NUMVARS: "num_vars", W_NUMBITS: "num_bits"}


def nwords(n):
    return 1 if n <= 6 else 1 << (n - 6)


def _distinct_bound_ok(M, k, d):
    # C(M,k) * (k/M)^d < 2^-FA   <=>   C(M,k) * k^d * 2^FA < M^d
    return (comb(M, k) * (k ** d)) << FA_LOG2 < M ** d


@lru_cache(maxsize=None)
def min_distinct(n, d):
    """A threshold L such that P[#distinct among d fair draws of n-var tables < L] < 2^-FA.
    Union bound: P[#distinct <= k] <= C(M,k) * (k/M)^d,  M = 2^(2^n).  L-1 is the
    largest k found for which the bound is below 2^-FA (binary search; validity
    needs the bound only at k = L-1, which is re-verified)."""
    M = 1 << (1 << n)
    hi = min(d, M) - 1
    if hi < 1 or not _distinct_bound_ok(M, 1, d):
        return 1
    lo = 1  # invariant: bound ok at lo
    while lo < hi:
        mid = (lo + hi + 1) // 2
        if _distinct_bound_ok(M, mid, d):
            lo = mid
        else:
            hi = mid - 1
    assert _distinct_bound_ok(M, lo, d)
    return lo + 1


@lru_cache(maxsize=None)
def max_dups(n, m):
    """Smallest c such that P[m - #distinct >= c] < 2^-FA for m fair draws, or None.
    m - #distinct >= c implies a forest of c colliding pairs (each repeated draw
    linked to its first occurrence); a fixed forest with c edges collides with
    probability exactly M^-c, and there are at most C(m(m-1)/2, c) of them."""
    M = 1 << (1 << n)
    pairs = m * (m - 1) // 2
    if pairs >= M * m:
        return None  # terms C(pairs,c)/M^c never decrease for c <= m
    num = 1  # C(pairs, c)
    den = 1  # M^c
    for c in range(1, m + 1):
        num = num * (pairs - c + 1) // c
        den *= M
        if num << FA_LOG2 < den:
            return c
    return None


@lru_cache(maxsize=None)
def max_word_repeats(w):
    """Smallest c such that P[w - #distinct >= c] < 2^-FA for w fair 64-bit words (forest bound, M = 2^64)."""
    pairs = w * (w - 1) // 2
    num, den = 1, 1
    for c in range(1, w + 1):
        num = num * (pairs - c + 1) // c
        den <<= 64
        if num << FA_LOG2 < den:
            return c
    return None


@lru_cache(maxsize=None)
def stuck_threshold(n, d):
    """Shrinking statistic only (never a verdict): smallest s such that
    P[at least s positions constant over d draws] < 2^-FA:
    C(2^n, s) * 2^((1-d)s) < 2^-FA."""
    bits = 1 << n
    for s in range(1, bits + 1):
        if comb(bits, s) << FA_LOG2 < 1 << ((d - 1) * s):
            return s
    return None


def table_int(blocks):
    v = 0
    for i, b in enumerate(blocks):
        v |= b << (64 * i)
    return v


def _viol(cls, detail, key, threads, n, typ):
    return {"class": cls, "detail": detail, "key": key, "threads": sorted(set(threads)), "n": n, "typ": typ}


def check_run(run, shrink_mode=False):
    """Apply all verdict oracles to one run. `run` = {draws: [...], joins: [...]}.
    With shrink_mode the stuck-position *count* statistic stands in for check 3
    (used only while minimising a class-`stuck` failure at smaller D)."""
    draws = run["draws"]
    out = []
    # 1. returns
    for t in run.get("joins", []):
        out.append(_viol("panicked", f"thread {t} died", f"join", [t], None, None))
    for d in draws:
        if d["warn"] & W_PANIC:
            out.append(_viol("panicked", f"{tname(d['typ'])} random() for n={d['n']} panicked in thread {d['t']}",
                             f"{d['typ']}{d['n']}", [d["t"]], d["n"], d["typ"]))
    ok = [d for d in draws if not d["warn"] & W_PANIC]
    # 1b. a returned table stays what it was: the harness keeps every returned Lut alive, hands it to the
    # main thread and re-reads it after the run (aliasing with generator-internal storage shows up here only)
    changed = [d for d in ok if d["warn"] & W_CHANGED]
    if changed:
        d = changed[0]
        out.append(_viol("aliased", f"{len(changed)} of {len(ok)} tables returned by {tname(d['typ'])} random() and kept by the caller no longer hold the value they had when returned "
                         f"(first: thread {d['t']}, n={d['n']}, draw #{d.get('rep', 0)})", f"{d['typ']}{d['n']}:kept", [d["t"]], d["n"], d["typ"]))
    for d in ok:
        d["warn"] &= ~W_CHANGED
    # 2. well-formed (in-run mask, re-checked post hoc from the logged blocks)
    seen = set()
    for d in ok:
        n = d["n"]
        w = d["warn"]
        if len(d["blocks"]) != nwords(n):
            w |= W_BLOCKS
        if n < 6 and d["blocks"] and d["blocks"][0] >> (1 << n):
            w |= W_HIGH
        if any(b >> 64 or b < 0 for b in d["blocks"]):
            w |= W_HIGH
        if w:
            names = "+".join(v for k, v in WARN_NAMES.items() if w & k)
            key = f"{d['typ']}{n}:{names}"
            if key not in seen:
                seen.add(key)
                out.append(_viol("malformed", f"{tname(d['typ'])} random() for n={n}: {names} wrong (thread {d['t']}, blocks={hexs(d['blocks'])})",
                                 key, [d["t"]], n, d["typ"]))
    good = [d for d in ok if len(d["blocks"]) == nwords(d["n"])]
    for d in good:
        d["v"] = table_int(d["blocks"])
    # group: (t, typ, n) -> tables in call order
    groups = {}
    for d in good:
        groups.setdefault((d["t"], d["typ"], d["n"]), []).append(d["v"])
    pools = {}
    for d in good:
        pools.setdefault((d["typ"], d["n"]), []).append((d["t"], d["v"]))
    # 3. every assignment receives both values: per group and per (typ, n) pool over threads
    def both_values(tabs, n, where, threads, typ, key):
        m = len(tabs)
        full = (1 << (1 << n)) - 1
        if not shrink_mode:
            if m < n + 1 + FA_LOG2:
                return
            o = 0
            a = full
            for v in tabs:
                o |= v
                a &= v
            stuck0 = full & ~o
            stuck1 = a
            if stuck0 or stuck1:
                cnt = bin(stuck0).count("1") + bin(stuck1).count("1")
                first = (stuck0 | stuck1)
                pos = (first & -first).bit_length() - 1
                out.append(_viol("stuck", f"{tname(typ)} n={n} {where}: {cnt} of {1 << n} assignments never received both values over {m} draws (first: assignment {pos}, always {'1' if stuck1 >> pos & 1 else '0'})",
                                 key, threads, n, typ))
        else:
            s = stuck_threshold(n, m) if m >= 8 else None
            if s is None:
                return
            o = 0
            a = full
            for v in tabs:
                o |= v
                a &= v
            cnt = bin(full & ~o).count("1") + bin(a).count("1")
            if cnt >= s:
                out.append(_viol("stuck", f"{tname(typ)} n={n} {where}: {cnt} of {1 << n} assignments constant over {m} draws (shrink statistic, threshold {s})",
                                 key, threads, n, typ))
    for (t, typ, n), tabs in sorted(groups.items()):
        both_values(tabs, n, f"thread {t}", [t], typ, f"{typ}{n}:thread")
    # call-context groups ("call-independent"): for a fair generator ANY subsequence selected by
    # call position alone is fair, so the same two checks apply to the draws one call site of the
    # workload made on one thread, taken every q-th repetition (phase r), optionally after a warm-up.
    sites = {}
    for d in good:
        sites.setdefault((d["t"], d.get("slot", 0)), []).append(d)
    ctx_groups = []
    for (t, slot), ds in sorted(sites.items()):
        ds.sort(key=lambda d: d.get("rep", 0))
        n, typ = ds[0]["n"], ds[0]["typ"]
        if any(d["n"] != n or d["typ"] != typ for d in ds):
            continue
        need = n + 1 + FA_LOG2
        whole_is_group = len(groups.get((t, typ, n), ())) == len(ds)
        for q in range(1, QMAX + 1):
            if len(ds) // q < need:
                break
            for r in range(q):
                for warm in (0, 64):
                    sub = [d["v"] for d in ds if d.get("rep", 0) % q == r and d.get("rep", 0) >= warm]
                    if len(sub) < need or (q == 1 and warm == 0 and whole_is_group):
                        continue
                    where = f"thread {t}, call site {slot}" + (f", every {q}th repetition (phase {r})" if q > 1 else "") + (f", after {warm} warm-up repetitions" if warm else "")
                    ctx_groups.append((t, typ, n, sub, where))
    nbefore = len(out)
    for (t, typ, n, sub, where) in ctx_groups:
        both_values(sub, n, where, [t], typ, f"{typ}{n}:site")
        if len(out) > nbefore + 4:
            break
    for (typ, n), tv in sorted(pools.items()):
        ths = sorted(set(t for t, _ in tv))
        if len(ths) > 1:
            both_values([v for _, v in tv], n, f"pooled over {len(ths)} threads", ths, typ, f"{typ}{n}:pool")
    # 4. draws differ from one another
    def distinctness(tabs_with_t, n, where, typ, key):
        m = len(tabs_with_t)
        if m < 2:
            return
        first = {}
        dups = []
        for i, (t, v) in enumerate(tabs_with_t):
            if v in first:
                dups.append((first[v], (i, t)))
            else:
                first[v] = (i, t)
        distinct = len(first)
        c = max_dups(n, m)
        L = 1 if c == 1 else min_distinct(n, m)  # c == 1 already demands all-distinct
        bad = None
        if distinct < L:
            bad = f"only {distinct} distinct tables among {m} draws (a fair generator gives >= {L} except with probability < 2^-{FA_LOG2})"
        elif c is not None and m - distinct >= c:
            bad = f"{m - distinct} repeated tables among {m} draws (a fair generator gives < {c} except with probability < 2^-{FA_LOG2})"
        if bad:
            ths = []
            for (a, b) in dups[:8]:
                ths += [a[1], b[1]]
            ex = ""
            if dups:
                (i0, t0), (i1, t1) = dups[0]
                ex = f"; e.g. draw #{i0} (thread {t0}) == draw #{i1} (thread {t1})"
            out.append(_viol("duplicates", f"{tname(typ)} n={n} {where}: {bad}{ex}", key, ths or [tabs_with_t[0][0]], n, typ))
    for (t, typ, n), tabs in sorted(groups.items()):
        distinctness([(t, v) for v in tabs], n, f"thread {t}", typ, f"{typ}{n}:thread")
    nbefore = len(out)
    for (t, typ, n, sub, where) in ctx_groups:
        distinctness([(t, v) for v in sub], n, where, typ, f"{typ}{n}:site")
        if len(out) > nbefore + 4:
            break
    # whole run, per n, over threads and types
    byn = {}
    for d in sorted(good, key=lambda d: d["s1"]):
        byn.setdefault(d["n"], []).append((d["t"], d["v"]))
    for n, tv in sorted(byn.items()):
        if len(set(t for t, _ in tv)) > 1 or len(set(d["typ"] for d in good if d["n"] == n)) > 1:
            distinctness(tv, n, "whole run (all threads and types)", "*", f"*{n}:run")
    # 4b. 64-bit words repeated between returned tables (any sizes >= 6, any threads, any types): a draw that is
    # a copy of part of another draw is not call-independent even when the two tables have different sizes.
    # Same forest bound with M = 2^64; for the word counts of a run this means 5 to 8 repeats at least.
    words = {}
    nw = 0
    rep_examples = []
    reps = 0
    for d in sorted(good, key=lambda d: d["s0"]):
        if d["n"] < 6:
            continue
        for i, b in enumerate(d["blocks"]):
            nw += 1
            if b in words:
                reps += 1
                if len(rep_examples) < 4:
                    rep_examples.append((words[b], (d["t"], d["typ"], d["n"], d.get("rep", 0), i)))
            else:
                words[b] = (d["t"], d["typ"], d["n"], d.get("rep", 0), i)
    if nw >= 2:
        cw = max_word_repeats(nw)
        if cw is not None and reps >= cw:
            def fmt(x):
                return f"thread {x[0]} {tname(x[1])} n={x[2]} draw #{x[3]} word {x[4]}"
            ex = "; ".join(f"{fmt(a)} == {fmt(b)}" for a, b in rep_examples[:2])
            out.append(_viol("repeated_words", f"{reps} of the {nw} 64-bit words of the returned tables repeat an earlier word (a fair generator gives < {cw} except with probability < 2^-{FA_LOG2}); e.g. {ex}",
                             "*:words", sorted(set([a[0] for a, b in rep_examples] + [b[0] for a, b in rep_examples])), None, "*"))
    # 5. call-independent: two threads' (or the two types') sequences for one n are not identical
    seqs = {}
    for (t, typ, n), tabs in groups.items():
        seqs.setdefault(n, []).append((t, typ, tuple(tabs)))
    for n, lst in sorted(seqs.items()):
        byseq = {}
        for t, typ, tabs in sorted(lst):
            if len(tabs) * (1 << n) < FA_LOG2 + 46:  # needs D * 2^n >= 256
                continue
            byseq.setdefault(tabs, []).append((t, typ))
        for tabs, who in byseq.items():
            if len(who) > 1:
                out.append(_viol("same_sequence", f"n={n}: the {len(tabs)}-draw sequences of " + ", ".join(f"thread {t}/{tname(ty)}" for t, ty in who[:6]) + " are identical",
                                 f"*{n}:seq", [t for t, _ in who], n, who[0][1] if len(set(ty for _, ty in who)) == 1 else "*"))
    for d in good:
        d.pop("v", None)
    return out


def tname(typ):
    return {"L": "Lut", "S": "LutN", "*": "Lut/LutN"}.get(typ, typ)


def hexs(blocks):
    s = ".".join(f"{b:016x}" for b in blocks[:4])
    return s + ("..." if len(blocks) > 4 else "")


# ---- probes (never verdicts) -------------------------------------------------

def gf2_rank(vectors):
    """Rank over GF(2) of integers seen as bit vectors (xor basis keyed by highest set bit)."""
    basis = {}
    for v in vectors:
        while v:
            h = v.bit_length() - 1
            b = basis.get(h)
            if b is None:
                basis[h] = v
                break
            v ^= b
    return len(basis)


def rank_probe(run):
    """NOT a verdict: GF(2) rank of the draws of one multi-word size taken together.  A fair generator spans
    min(m, 2^n) dimensions (a deficiency d has probability about 2^-(d^2)); a generator whose words are linearly
    tied to one another (raw xorshift / LFSR / LCG bits) spans far fewer although every observation the
    property names still holds.  Reported in the evidence and as a NOTE line only."""
    worst = None
    byn = {}
    for d in run["draws"]:
        if d["n"] in (7, 8, 9) and not d["warn"] and len(d["blocks"]) == nwords(d["n"]):
            byn.setdefault(d["n"], []).append(table_int(d["blocks"]))
    for n, vs in byn.items():
        vs = vs[:1024]
        full = min(len(vs), 1 << n)
        if full < 48:
            continue
        r = gf2_rank(vs)
        if worst is None or full - r > worst["deficiency"]:
            worst = {"n": n, "draws": len(vs), "rank": r, "full_rank": full, "deficiency": full - r}
    return worst


def probes(run):
    draws = run["draws"]
    pre = sum(1 for d in draws if d["s1"] - d["s0"] > 1)
    words = {}
    dupw = 0
    nw = 0
    ones = 0
    bits = 0
    for d in draws:
        for b in d["blocks"]:
            if d["n"] >= 6:
                nw += 1
                if b in words:
                    dupw += 1
                words[b] = 1
                ones += bin(b).count("1")
                bits += 64
    return {"draws": len(draws), "preempted_draws": pre, "words64": nw, "dup_words64": dupw, "ones": ones, "bits": bits,
            "rank": rank_probe(run)}
