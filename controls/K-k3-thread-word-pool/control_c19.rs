//! Checks on random table generation, through the public API only:
//!   * tables are well-formed for every size (right number of blocks, no bit beyond 2^n)
//!   * over 256 draws every assignment receives both values
//!   * draws differ from one another, within a thread, across concurrent threads and across
//!     successive generations of threads
//!   * interleaving sizes, types and other API calls on one thread changes nothing
//!
//! All the checks are statistical with a negligible false-alarm probability for a fair generator
//! (the weakest one, global uniqueness of 64-bit words, is below 2^-20).

#![cfg(feature = "rand")]

use std::collections::HashSet;
use std::sync::{Arc, Barrier};
use std::thread;

use volute::{
    Lut, Lut0, Lut1, Lut10, Lut11, Lut12, Lut2, Lut3, Lut4, Lut5, Lut6, Lut7, Lut8, Lut9,
};

const MAX_VARS: usize = 12;
const DRAWS: usize = 256;
const THREADS: usize = 16;

#[derive(Clone, Copy, Debug, PartialEq, Eq)]
enum Kind {
    Dynamic,
    Static,
}

const KINDS: [Kind; 2] = [Kind::Dynamic, Kind::Static];

/// Draw one random table and return its blocks, after checking the table against its own API
fn draw(kind: Kind, n: usize) -> Vec<u64> {
    macro_rules! static_draw {
        ($t:ty) => {{
            let l = <$t>::random();
            assert_eq!(l.num_vars(), n);
            assert_eq!(l.num_bits(), 1 << n);
            assert_eq!(l.num_blocks(), l.blocks().len());
            // Consistent with the dynamic type
            let d: Lut = l.into();
            assert_eq!(d.blocks(), l.blocks());
            l.blocks().to_vec()
        }};
    }
    match kind {
        Kind::Dynamic => {
            let l = Lut::random(n);
            assert_eq!(l.num_vars(), n);
            assert_eq!(l.num_bits(), 1 << n);
            assert_eq!(l.num_blocks(), l.blocks().len());
            l.blocks().to_vec()
        }
        Kind::Static => match n {
            0 => static_draw!(Lut0),
            1 => static_draw!(Lut1),
            2 => static_draw!(Lut2),
            3 => static_draw!(Lut3),
            4 => static_draw!(Lut4),
            5 => static_draw!(Lut5),
            6 => static_draw!(Lut6),
            7 => static_draw!(Lut7),
            8 => static_draw!(Lut8),
            9 => static_draw!(Lut9),
            10 => static_draw!(Lut10),
            11 => static_draw!(Lut11),
            12 => static_draw!(Lut12),
            _ => unreachable!(),
        },
    }
}

fn expected_blocks(n: usize) -> usize {
    if n <= 6 {
        1
    } else {
        1 << (n - 6)
    }
}

fn expected_mask(n: usize) -> u64 {
    if n >= 6 {
        !0u64
    } else {
        (1u64 << (1usize << n)) - 1
    }
}

/// Well-formed table: right size, nothing beyond bit 2^n, and recognized as such by the API
fn check_well_formed(kind: Kind, n: usize, blocks: &[u64]) {
    assert_eq!(blocks.len(), expected_blocks(n), "{kind:?} {n}: size");
    for b in blocks {
        assert_eq!(b & !expected_mask(n), 0, "{kind:?} {n}: bit beyond 2^n");
    }
    let l = Lut::from_blocks(n, blocks);
    assert_eq!(!!&l, l);
    assert_eq!(&l | &Lut::one(n), Lut::one(n));
    assert_eq!(Lut::from_hex_string(n, &l.to_hex_string()), Ok(l));
}

/// Minimum number of distinct tables expected among 256 draws
fn min_distinct(n: usize) -> usize {
    match n {
        0 => 2,
        1 => 4,
        2 => 8,
        3 => 100,
        4 => 240,
        5 => 250,
        _ => DRAWS,
    }
}

/// Checks on a series of draws of the same size made by one thread
fn check_series(kind: Kind, n: usize, series: &[Vec<u64>]) {
    assert!(series.len() >= DRAWS);
    let nb = expected_blocks(n);
    let mut seen_one = vec![0u64; nb];
    let mut seen_zero = vec![0u64; nb];
    for t in series {
        check_well_formed(kind, n, t);
        for i in 0..nb {
            seen_one[i] |= t[i];
            seen_zero[i] |= !t[i];
        }
    }
    for i in 0..nb {
        assert_eq!(seen_one[i], expected_mask(n), "{kind:?} {n}: stuck at 0");
        assert_eq!(
            seen_zero[i] & expected_mask(n),
            expected_mask(n),
            "{kind:?} {n}: stuck at 1"
        );
    }
    let distinct: HashSet<&Vec<u64>> = series.iter().collect();
    let expected = min_distinct(n) + (series.len() - DRAWS) * (n >= 6) as usize;
    assert!(
        distinct.len() >= expected,
        "{kind:?} {n}: {} distinct tables out of {}",
        distinct.len(),
        series.len()
    );
}

/// Everything drawn by one thread: for each kind and size, the series of tables in draw order
type Harvest = Vec<(Kind, usize, Vec<Vec<u64>>)>;

/// Size by size, 256 draws of each type
fn harvest_sequential() -> Harvest {
    let mut ret = Vec::new();
    for n in 0..=MAX_VARS {
        for kind in KINDS {
            let series: Vec<_> = (0..DRAWS).map(|_| draw(kind, n)).collect();
            ret.push((kind, n, series));
        }
    }
    ret
}

/// Same amount of draws, but with sizes and types interleaved and other calls in between
fn harvest_mixed(salt: usize) -> Harvest {
    let mut ret: Harvest = Vec::new();
    for n in 0..=MAX_VARS {
        for kind in KINDS {
            ret.push((kind, n, Vec::new()));
        }
    }
    // 7 is coprime with 26: each round visits every slot once, big and small sizes alternating
    let slots = ret.len();
    let mut unrelated = 0usize;
    for round in 0..DRAWS {
        for k in 0..slots {
            let slot = (salt + round + 7 * k) % slots;
            let (kind, n, _) = ret[slot];
            let t = draw(kind, n);
            ret[slot].2.push(t);
            // Unrelated work between draws
            match (round + k) % 4 {
                0 => unrelated += Lut::majority(5).blocks().len(),
                1 => unrelated += Lut4::parity().n_canonization().1 as usize,
                2 => unrelated += (!Lut::nth_var(7, 3)).num_blocks(),
                _ => thread::yield_now(),
            }
        }
    }
    assert!(unrelated > 0);
    ret
}

fn check_harvest(h: &Harvest) {
    assert_eq!(h.len(), 2 * (MAX_VARS + 1));
    for (kind, n, series) in h {
        check_series(*kind, *n, series);
    }
}

/// Checks across threads: no 64-bit word is ever seen twice, and no two series are the same
fn check_across(harvests: &[Harvest]) {
    // Every full word handed out anywhere is unique
    let mut words = HashSet::new();
    let mut count = 0usize;
    for h in harvests {
        for (_, n, series) in h {
            if *n >= 6 {
                for t in series {
                    for w in t {
                        words.insert(*w);
                        count += 1;
                    }
                }
            }
        }
    }
    assert_eq!(words.len(), count, "repeated 64-bit word");

    // Small tables repeat by necessity, but the series of 256 draws must all differ: between
    // threads, between types and between sizes (a narrower series embedded in a wider one is
    // checked through the low bits)
    for n in 0..6 {
        let mut sequences = HashSet::new();
        let mut count = 0usize;
        for h in harvests {
            for (_, m, series) in h {
                if *m >= n && *m <= 6 {
                    let seq: Vec<u64> = series.iter().map(|t| t[0] & expected_mask(n)).collect();
                    sequences.insert(seq);
                    count += 1;
                }
            }
        }
        assert_eq!(sequences.len(), count, "repeated series of {n}-variable draws");
    }
}

/// Run the workers concurrently, all starting to draw at the same time
fn run_concurrently(nthreads: usize, mixed: bool) -> Vec<Harvest> {
    let barrier = Arc::new(Barrier::new(nthreads));
    let handles: Vec<_> = (0..nthreads)
        .map(|i| {
            let barrier = barrier.clone();
            thread::spawn(move || {
                barrier.wait();
                if mixed {
                    harvest_mixed(i)
                } else {
                    harvest_sequential()
                }
            })
        })
        .collect();
    handles.into_iter().map(|h| h.join().unwrap()).collect()
}

#[test]
fn single_thread() {
    let h = harvest_sequential();
    check_harvest(&h);
    check_across(&[h]);
}

#[test]
fn single_thread_mixed_sizes() {
    let h = harvest_mixed(3);
    check_harvest(&h);
    check_across(&[h]);
}

#[test]
fn sixteen_threads() {
    let hs = run_concurrently(THREADS, false);
    assert_eq!(hs.len(), THREADS);
    for h in &hs {
        check_harvest(h);
    }
    check_across(&hs);
}

#[test]
fn sixteen_threads_mixed_sizes() {
    let hs = run_concurrently(THREADS, true);
    for h in &hs {
        check_harvest(h);
    }
    check_across(&hs);
}

#[test]
fn successive_generations() {
    // Threads of a generation only start once the previous generation is gone, and the current
    // thread draws before, between and after
    let mut all = vec![harvest_sequential()];
    for generation in 0..3 {
        all.extend(run_concurrently(THREADS, generation % 2 == 1));
        all.push(harvest_mixed(generation));
    }
    // Very short-lived threads: a single draw each, at sizes around the pool mechanics
    for n in [0, 3, 6, 7, 12] {
        let tables: Vec<Vec<u64>> = (0..DRAWS)
            .map(|_| thread::spawn(move || draw(Kind::Dynamic, n)).join().unwrap())
            .collect();
        check_series(Kind::Dynamic, n, &tables);
        all.push(vec![(Kind::Dynamic, n, tables)]);
    }
    for h in &all {
        if h.len() > 1 {
            check_harvest(h);
        }
    }
    check_across(&all);
}

#[test]
fn first_draw_of_a_thread() {
    // The very first table of a fresh thread comes from a fresh pool: it must be masked and must
    // not be a default value, whatever the size requested first
    for n in 0..=MAX_VARS {
        for kind in KINDS {
            let firsts: Vec<Vec<u64>> = (0..DRAWS)
                .map(|_| thread::spawn(move || draw(kind, n)).join().unwrap())
                .collect();
            check_series(kind, n, &firsts);
        }
    }
}

#[test]
fn long_run_small_tables() {
    // Many pool refills with one-word requests, then a wide request at an arbitrary offset
    for offset in [0usize, 1, 63, 64, 65, 127, 128, 129, 1000] {
        thread::spawn(move || {
            let mut words = HashSet::new();
            for _ in 0..offset {
                let t = draw(Kind::Dynamic, 2);
                check_well_formed(Kind::Dynamic, 2, &t);
            }
            for kind in KINDS {
                for n in [12, 0, 11, 5, 12, 6] {
                    let t = draw(kind, n);
                    check_well_formed(kind, n, &t);
                    if n >= 6 {
                        for w in &t {
                            assert!(words.insert(*w), "repeated word after {offset} draws");
                        }
                    }
                }
            }
        })
        .join()
        .unwrap();
    }
}
