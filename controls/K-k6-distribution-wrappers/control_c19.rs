//! Checks that random() returns well-formed, non-degenerate, call-independent functions,
//! for Lut and StaticLut, for every size in 0..=12, from one or many threads.
#![cfg(feature = "rand")]

use std::collections::HashSet;
use std::thread;

use rand::distributions::Distribution;
use rand::rngs::StdRng;
use rand::{Rng, SeedableRng};
use volute::*;

const DRAWS: usize = 256;
const THREADS: usize = 16;

/// A drawn table: number of variables and raw 64-bit blocks
type Table = (usize, Vec<u64>);

fn num_blocks(n: usize) -> usize {
    if n <= 6 {
        1
    } else {
        1 << (n - 6)
    }
}

fn draw_lut(n: usize) -> Table {
    let l = Lut::random(n);
    assert_eq!(l.num_vars(), n);
    assert_eq!(l.num_bits(), 1 << n);
    assert_eq!(l.num_blocks(), num_blocks(n));
    (n, l.blocks().to_vec())
}

macro_rules! static_draw {
    ($n:expr, $($k:literal => $t:ty),*) => {
        match $n {
            $($k => {
                let l = <$t>::random();
                assert_eq!(l.num_vars(), $k);
                assert_eq!(l.num_blocks(), num_blocks($k));
                // The dynamic conversion must agree with the static table
                assert_eq!(Lut::from(l).blocks(), l.blocks());
                ($k, l.blocks().to_vec())
            })*
            _ => unreachable!(),
        }
    };
}

fn draw_static(n: usize) -> Table {
    static_draw!(n, 0 => Lut0, 1 => Lut1, 2 => Lut2, 3 => Lut3, 4 => Lut4, 5 => Lut5, 6 => Lut6,
        7 => Lut7, 8 => Lut8, 9 => Lut9, 10 => Lut10, 11 => Lut11, 12 => Lut12)
}

/// No bit beyond 2^n, right number of words
fn check_well_formed(t: &Table) {
    let (n, b) = t;
    assert_eq!(b.len(), num_blocks(*n));
    if *n < 6 {
        assert_eq!(b[0] >> (1u32 << n), 0, "stray bit in a {}-var table: {:#x}", n, b[0]);
    }
}

/// Every assignment receives both values over the draws
fn check_both_values(n: usize, draws: &[Table]) {
    let nb = num_blocks(n);
    let mut or = vec![0u64; nb];
    let mut and = vec![!0u64; nb];
    for (m, b) in draws {
        assert_eq!(*m, n);
        for i in 0..nb {
            or[i] |= b[i];
            and[i] &= b[i];
        }
    }
    let full = if n < 6 { (1u64 << (1u32 << n)) - 1 } else { !0u64 };
    for i in 0..nb {
        assert_eq!(or[i], full, "some assignment never true, n={} block={}", n, i);
        assert_eq!(and[i], 0, "some assignment never false, n={} block={}", n, i);
    }
}

/// Draws differ from one another as much as chance allows
fn check_distinct(n: usize, draws: &[Table]) {
    let distinct: HashSet<&Vec<u64>> = draws.iter().map(|t| &t.1).collect();
    if n >= 6 {
        // At least 64 bits per table: any repeat is a failure
        assert_eq!(distinct.len(), draws.len(), "repeated table, n={}", n);
        // No repeated 64-bit word either
        let words: HashSet<u64> = draws.iter().flat_map(|t| t.1.iter().copied()).collect();
        assert_eq!(words.len(), draws.len() * num_blocks(n), "repeated word, n={}", n);
    } else if n == 5 {
        // 2^32 functions; a few collisions are allowed for large samples
        assert!(distinct.len() + 8 >= draws.len(), "too many repeats, n=5");
    } else {
        // Small spaces: (almost) every function must show up given enough draws.
        let space = 1usize << (1usize << n);
        if draws.len() >= 64 * space {
            assert_eq!(distinct.len(), space, "missing functions, n={}", n);
        } else {
            assert!(distinct.len() >= std::cmp::min(space, draws.len()) / 3);
        }
        // No immediate-repeat pattern: consecutive equal draws must not dominate
        if n >= 2 {
            let same = draws.windows(2).filter(|w| w[0].1 == w[1].1).count();
            assert!(same * 2 < draws.len(), "draws repeat consecutively, n={}", n);
        }
    }
}

fn check_batch(n: usize, draws: &[Table]) {
    for t in draws {
        check_well_formed(t);
    }
    check_both_values(n, draws);
    check_distinct(n, draws);
}

/// Per-size draws on the calling thread, both types, with unrelated API calls in between
fn thread_workload() -> Vec<(Vec<Table>, Vec<Table>)> {
    let mut ret = Vec::new();
    for n in 0..=12 {
        let mut dynamic = Vec::with_capacity(DRAWS);
        let mut fixed = Vec::with_capacity(DRAWS);
        for i in 0..DRAWS {
            dynamic.push(draw_lut(n));
            if i % 7 == 0 {
                // Other API calls in between
                let p = Lut::parity(n);
                assert_eq!(!&!&p, p);
                let _ = Lut::majority(n) ^ Lut::one(n);
            }
            fixed.push(draw_static(n));
        }
        check_batch(n, &dynamic);
        check_batch(n, &fixed);
        ret.push((dynamic, fixed));
    }
    ret
}

#[test]
fn single_thread() {
    thread_workload();
}

/// Merge the results of several threads and check them as one sample
fn check_across(results: &[Vec<(Vec<Table>, Vec<Table>)>]) {
    for n in 0..=12 {
        let mut all = Vec::new();
        for r in results {
            all.extend(r[n].0.iter().cloned());
            all.extend(r[n].1.iter().cloned());
        }
        check_batch(n, &all);
        if n >= 6 {
            // Streams of different threads are not shifted copies of one another:
            // covered by word distinctness in check_batch. Check first draws explicitly too.
            let firsts: HashSet<&Vec<u64>> = results.iter().map(|r| &r[n].0[0].1).collect();
            assert_eq!(firsts.len(), results.len());
        }
    }
}

#[test]
fn sixteen_threads() {
    let handles: Vec<_> = (0..THREADS).map(|_| thread::spawn(thread_workload)).collect();
    let results: Vec<_> = handles.into_iter().map(|h| h.join().unwrap()).collect();
    check_across(&results);
}

#[test]
fn successive_generations() {
    // Threads that start after all the previous ones have exited must not replay their streams
    let mut results = Vec::new();
    for _generation in 0..4 {
        let handles: Vec<_> = (0..4).map(|_| thread::spawn(thread_workload)).collect();
        for h in handles {
            results.push(h.join().unwrap());
        }
    }
    // One after the other, each one exiting before the next starts
    for _ in 0..8 {
        results.push(thread::spawn(thread_workload).join().unwrap());
    }
    check_across(&results);
}

#[test]
fn mixed_sizes_interleaved() {
    let run = || {
        let mut per_size: Vec<Vec<Table>> = vec![Vec::new(); 13];
        // Sizes interleaved in a non-monotone order, types alternating
        for i in 0..(13 * 2 * DRAWS) {
            let n = (i * 5 + i / 13) % 13;
            let t = if (i / 13) % 2 == 0 { draw_lut(n) } else { draw_static(n) };
            per_size[n].push(t);
        }
        for (n, draws) in per_size.iter().enumerate() {
            assert!(draws.len() >= DRAWS);
            check_batch(n, draws);
        }
        per_size
    };
    let main_result = run();
    let handles: Vec<_> = (0..THREADS).map(|_| thread::spawn(run)).collect();
    let mut all = vec![main_result];
    for h in handles {
        all.push(h.join().unwrap());
    }
    for n in 0..=12 {
        let merged: Vec<Table> = all.iter().flat_map(|r| r[n].iter().cloned()).collect();
        check_batch(n, &merged);
    }
}

#[test]
fn distribution_from_any_rng() {
    // Sampling through the Distribution impls: deterministic for a seeded generator,
    // well-formed and non-degenerate, and consistent between Lut and StaticLut
    for n in 0..=12 {
        let mut a = StdRng::seed_from_u64(0xC19 + n as u64);
        let mut b = StdRng::seed_from_u64(0xC19 + n as u64);
        let dist = UniformLut::new(n);
        assert_eq!(dist.num_vars(), n);
        let mut draws = Vec::new();
        for _ in 0..DRAWS {
            let la: Lut = dist.sample(&mut a);
            let lb: Lut = b.sample(dist);
            assert_eq!(la, lb);
            draws.push((n, la.blocks().to_vec()));
        }
        check_batch(n, &draws);
    }
    let mut a = StdRng::seed_from_u64(7);
    let mut b = StdRng::seed_from_u64(7);
    for _ in 0..DRAWS {
        let s3: Lut3 = a.gen();
        let d3: Lut = b.sample(UniformLut::new(3));
        assert_eq!(Lut::from(s3), d3);
        let s9: Lut9 = a.gen();
        let d9: Lut = b.sample(UniformLut::new(9));
        assert_eq!(Lut::from(s9), d9);
    }
}

#[test]
fn small_tables_are_uniform() {
    // Chi-square-free check: every function of 0..=3 variables appears with about the right frequency
    for n in 0..=3usize {
        let space = 1usize << (1usize << n);
        let total = 200 * space;
        let mut counts = vec![0usize; space];
        for i in 0..total {
            let t = if i % 2 == 0 { draw_lut(n) } else { draw_static(n) };
            check_well_formed(&t);
            counts[t.1[0] as usize] += 1;
        }
        for (f, c) in counts.iter().enumerate() {
            // Expected 200, standard deviation ~14: 100..300 is beyond 7 sigma
            assert!(*c > 100 && *c < 300, "function {:#x} of {} vars drawn {} times", f, n, c);
        }
    }
}
