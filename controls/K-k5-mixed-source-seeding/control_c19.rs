//! Checks on `random()`: well-formed tables of the requested size, both values at every
//! position, draws that differ from one another within a thread, across concurrent
//! threads and across successive generations of threads, for every size 0..=12 and for
//! both `Lut` and the `LutN` types.
//!
//! All the thresholds are set so that a fair generator fails with negligible probability.

#![cfg(feature = "rand")]

use std::collections::{HashMap, HashSet};
use std::sync::{Arc, Barrier};
use std::thread;

use volute::{
    Lut, Lut0, Lut1, Lut10, Lut11, Lut12, Lut2, Lut3, Lut4, Lut5, Lut6, Lut7, Lut8, Lut9,
};

const MAX_VARS: usize = 12;
const DRAWS: usize = 256;
const THREADS: usize = 16;

#[derive(Clone, Copy, Debug, PartialEq, Eq, Hash)]
enum Kind {
    Dynamic,
    Static,
}

const KINDS: [Kind; 2] = [Kind::Dynamic, Kind::Static];

/// Draw one random table and return its blocks, after a few sanity checks on the object
fn draw(kind: Kind, n: usize) -> Vec<u64> {
    macro_rules! st {
        ($t:ty) => {{
            let l = <$t>::random();
            assert_eq!(l.num_vars(), n);
            assert_eq!(l.num_bits(), 1 << n);
            // Round trip through the complement only works on well-formed tables
            assert_eq!(!!l, l);
            assert_eq!(Lut::from(l).blocks(), l.blocks());
            l.blocks().to_vec()
        }};
    }
    match kind {
        Kind::Dynamic => {
            let l = Lut::random(n);
            assert_eq!(l.num_vars(), n);
            assert_eq!(l.num_bits(), 1 << n);
            assert_eq!(l.not().not(), l);
            assert_eq!(Lut::from_blocks(n, l.blocks()), l);
            l.blocks().to_vec()
        }
        Kind::Static => match n {
            0 => st!(Lut0),
            1 => st!(Lut1),
            2 => st!(Lut2),
            3 => st!(Lut3),
            4 => st!(Lut4),
            5 => st!(Lut5),
            6 => st!(Lut6),
            7 => st!(Lut7),
            8 => st!(Lut8),
            9 => st!(Lut9),
            10 => st!(Lut10),
            11 => st!(Lut11),
            12 => st!(Lut12),
            _ => unreachable!(),
        },
    }
}

fn expected_blocks(n: usize) -> usize {
    if n <= 6 {
        1
    } else {
        1 << (n - 6)
    }
}

fn block_mask(n: usize) -> u64 {
    if n >= 6 {
        !0
    } else {
        (1u64 << (1usize << n)) - 1
    }
}

/// Size and stray bits of a table
fn check_well_formed(n: usize, t: &[u64]) {
    assert_eq!(t.len(), expected_blocks(n), "wrong size for {n} variables");
    for b in t {
        assert_eq!(
            b & !block_mask(n),
            0,
            "stray bits for {n} variables: {b:#x}"
        );
    }
}

/// Minimum number of distinct tables expected among 256 draws (very loose)
fn min_distinct(n: usize) -> usize {
    match n {
        0 => 2,
        1 => 4,
        2 => 10,
        3 => 100,
        4 => 240,
        5 => 250,
        _ => DRAWS,
    }
}

/// Checks on a batch of draws of one size made in a row (maybe with other work in between)
fn check_batch(n: usize, batch: &[Vec<u64>]) {
    assert!(batch.len() >= DRAWS);
    let mut or = vec![0u64; expected_blocks(n)];
    let mut and = vec![!0u64; expected_blocks(n)];
    for t in batch {
        check_well_formed(n, t);
        for (i, b) in t.iter().enumerate() {
            or[i] |= b;
            and[i] &= b;
        }
    }
    for i in 0..expected_blocks(n) {
        assert_eq!(or[i], block_mask(n), "{n} variables: a position is never 1");
        assert_eq!(and[i], 0, "{n} variables: a position is never 0");
    }
    let distinct: HashSet<&Vec<u64>> = batch.iter().collect();
    let min = min_distinct(n) + if n >= 6 { batch.len() - DRAWS } else { 0 };
    assert!(
        distinct.len() >= min,
        "{n} variables: only {} distinct tables in {} draws",
        distinct.len(),
        batch.len()
    );
    // Consecutive draws must not be related in an obvious way
    if n >= 3 {
        let same = batch.windows(2).filter(|w| w[0] == w[1]).count();
        assert!(same <= 32, "{n} variables: {same} immediate repetitions");
        let compl = batch
            .windows(2)
            .filter(|w| {
                w[0].iter()
                    .zip(&w[1])
                    .all(|(a, b)| *a == !*b & block_mask(n))
            })
            .count();
        assert!(
            compl <= 32,
            "{n} variables: {compl} complemented repetitions"
        );
    }
}

/// Number of ones at every position, over a pool of draws: must be close to one half
fn check_balance(n: usize, pool: &[&Vec<u64>]) {
    let num = pool.len() as f64;
    let tol = 10.0 * (num / 4.0).sqrt();
    for pos in 0..(1usize << n) {
        let ones = pool
            .iter()
            .filter(|t| t[pos >> 6] >> (pos & 63) & 1 != 0)
            .count() as f64;
        assert!(
            (ones - num / 2.0).abs() <= tol,
            "{n} variables, position {pos}: {ones} ones in {num} draws"
        );
    }
}

/// No table of 64 bits or more may repeat; 64-bit words repeat at most once by accident
fn check_all_distinct<'a>(what: &str, tables: impl Iterator<Item = (usize, &'a Vec<u64>)>) {
    let mut seen_tables = HashSet::new();
    let mut seen_words = HashSet::new();
    let mut repeated_words = 0;
    for (n, t) in tables {
        if n < 6 {
            continue;
        }
        assert!(
            seen_tables.insert((n, t)),
            "{what}: repeated table with {n} variables"
        );
        for w in t {
            if !seen_words.insert(*w) {
                repeated_words += 1;
            }
        }
    }
    assert!(
        repeated_words <= 1,
        "{what}: {repeated_words} repeated 64-bit words"
    );
}

type Batches = HashMap<(Kind, usize), Vec<Vec<u64>>>;

/// What one thread does: 256 draws for every size and kind
fn worker() -> Batches {
    let mut ret = Batches::new();
    for n in 0..=MAX_VARS {
        for kind in KINDS {
            let batch: Vec<Vec<u64>> = (0..DRAWS).map(|_| draw(kind, n)).collect();
            check_batch(n, &batch);
            ret.insert((kind, n), batch);
        }
    }
    ret
}

/// Run a set of threads released at the same instant and collect what they drew
fn run_generation(num_threads: usize) -> Vec<Batches> {
    let barrier = Arc::new(Barrier::new(num_threads));
    let handles: Vec<_> = (0..num_threads)
        .map(|_| {
            let barrier = barrier.clone();
            thread::spawn(move || {
                barrier.wait();
                worker()
            })
        })
        .collect();
    handles.into_iter().map(|h| h.join().unwrap()).collect()
}

/// Checks across the threads: streams must be unrelated
fn check_across(what: &str, results: &[&Batches]) {
    check_all_distinct(
        what,
        results
            .iter()
            .flat_map(|r| r.iter().flat_map(|((_, n), b)| b.iter().map(|t| (*n, t)))),
    );
    for n in 0..=MAX_VARS {
        for kind in KINDS {
            let pool: Vec<&Vec<u64>> = results.iter().flat_map(|r| r[&(kind, n)].iter()).collect();
            check_balance(n, &pool);
            if n < 3 {
                continue;
            }
            // Streams in lockstep, whatever the size of the table
            for (i, a) in results.iter().enumerate() {
                for b in &results[i + 1..] {
                    let (a, b) = (&a[&(kind, n)], &b[&(kind, n)]);
                    let same = a.iter().zip(b).filter(|(x, y)| x == y).count();
                    assert!(
                        same <= 32,
                        "{what}: {n} variables: {same} draws shared by two threads"
                    );
                    let sa: HashSet<&Vec<u64>> = a.iter().collect();
                    let shared = b.iter().filter(|t| sa.contains(t)).count();
                    let max = match n {
                        3 => DRAWS,
                        4 => 32,
                        5 => 8,
                        _ => 0,
                    };
                    assert!(
                        shared <= max,
                        "{what}: {n} variables: {shared} tables in common"
                    );
                }
            }
        }
    }
}

#[test]
fn single_thread() {
    let r = worker();
    check_across("single thread", &[&r]);
}

#[test]
fn concurrent_threads() {
    let results = run_generation(THREADS);
    let refs: Vec<&Batches> = results.iter().collect();
    check_across("concurrent threads", &refs);
}

#[test]
fn successive_generations() {
    // Threads of a generation have all exited before the next one starts: their ids are
    // gone and their thread-local storage is likely to be handed out again
    let mut all = Vec::new();
    for _ in 0..3 {
        all.extend(run_generation(THREADS));
    }
    // The main thread of the test, before and after
    all.push(worker());
    let refs: Vec<&Batches> = all.iter().collect();
    check_across("successive generations", &refs);
}

#[test]
fn many_short_lived_threads() {
    // More threads than fit in 8 bits, one after the other, then more than fit in 8 bits
    // at once; every one makes a few draws only
    fn few() -> Vec<(usize, Vec<u64>)> {
        let mut ret = Vec::new();
        for n in [6, 12, 3, 7, 0, 9] {
            for kind in KINDS {
                let t = draw(kind, n);
                check_well_formed(n, &t);
                ret.push((n, t));
            }
        }
        ret
    }
    let mut all = Vec::new();
    for _ in 0..300 {
        all.extend(thread::spawn(few).join().unwrap());
    }
    let barrier = Arc::new(Barrier::new(300));
    let handles: Vec<_> = (0..300)
        .map(|_| {
            let barrier = barrier.clone();
            thread::spawn(move || {
                barrier.wait();
                few()
            })
        })
        .collect();
    for h in handles {
        all.extend(h.join().unwrap());
    }
    check_all_distinct("short-lived threads", all.iter().map(|(n, t)| (*n, t)));
    // First draw of every thread, at every position of a 64-bit table
    let firsts: Vec<&Vec<u64>> = all
        .iter()
        .filter(|(n, _)| *n == 6)
        .map(|(_, t)| t)
        .collect();
    assert_eq!(firsts.len(), 1200);
    check_balance(6, &firsts);
    let small: Vec<&Vec<u64>> = all
        .iter()
        .filter(|(n, _)| *n == 3)
        .map(|(_, t)| t)
        .collect();
    check_balance(3, &small);
    let distinct: HashSet<&Vec<u64>> = small.iter().copied().collect();
    assert!(distinct.len() >= 200);
}

#[test]
fn mixed_sizes_interleaved() {
    // Sizes in an irregular order on the same thread, with unrelated calls in between
    let body = || {
        let mut ret = Batches::new();
        let mut step = 0usize;
        while ret.len() < 2 * (MAX_VARS + 1) || ret.values().any(|b| b.len() < DRAWS) {
            let n = (step * 7 + step / 13) % (MAX_VARS + 1);
            let kind = KINDS[(step / 3) % 2];
            step += 1;
            let t = draw(kind, n);
            match step % 4 {
                0 => {
                    let l = Lut::from_blocks(n, &t);
                    if (2..=5).contains(&n) {
                        let (c, perm, _) = l.npn_canonization();
                        assert_eq!(c.num_vars(), n);
                        assert_eq!(perm.len(), n);
                    } else if n >= 6 {
                        let (c0, c1) = l.cofactors(n - 1);
                        assert_eq!(Lut::from_cofactors(&c0, &c1, n - 1), l);
                    }
                }
                1 => {
                    let _ = Lut::parity(n) ^ Lut::majority(n);
                }
                2 => {
                    let other = draw(KINDS[step % 2], (n + 5) % (MAX_VARS + 1));
                    check_well_formed((n + 5) % (MAX_VARS + 1), &other);
                }
                _ => {}
            }
            ret.entry((kind, n)).or_default().push(t);
        }
        for ((_, n), b) in &ret {
            check_batch(*n, b);
        }
        ret
    };
    let here = body();
    let there: Vec<Batches> = (0..4)
        .map(|_| thread::spawn(body))
        .collect::<Vec<_>>()
        .into_iter()
        .map(|h| h.join().unwrap())
        .collect();
    let mut refs: Vec<&Batches> = there.iter().collect();
    refs.push(&here);
    check_all_distinct(
        "mixed sizes",
        refs.iter()
            .flat_map(|r| r.iter().flat_map(|((_, n), b)| b.iter().map(|t| (*n, t)))),
    );
    for n in 0..=MAX_VARS {
        for kind in KINDS {
            let pool: Vec<&Vec<u64>> = refs.iter().flat_map(|r| r[&(kind, n)].iter()).collect();
            check_balance(n, &pool);
        }
    }
}

#[test]
fn long_run() {
    // Far more output than one key is used for, on two threads at once
    let body = || {
        let mut tables = Vec::new();
        for i in 0..12_000 {
            let n = if i % 5 == 0 { 11 } else { 12 };
            let t = draw(KINDS[i % 2], n);
            check_well_formed(n, &t);
            tables.push((n, t));
        }
        tables
    };
    let other = thread::spawn(body);
    let mut tables = body();
    tables.extend(other.join().unwrap());
    check_all_distinct("long run", tables.iter().map(|(n, t)| (*n, t)));
    // Balance of the words themselves, by bit, over the whole run
    let mut ones = [0u64; 64];
    let mut num = 0u64;
    for (_, t) in &tables {
        for w in t {
            num += 1;
            for (b, c) in ones.iter_mut().enumerate() {
                *c += w >> b & 1;
            }
        }
    }
    let tol = 10.0 * (num as f64 / 4.0).sqrt();
    for c in ones {
        assert!((c as f64 - num as f64 / 2.0).abs() <= tol);
    }
}
