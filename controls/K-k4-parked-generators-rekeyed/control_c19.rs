//! random() yields well-formed, non-degenerate, call-independent functions:
//! checks through the public API only, from one and from many threads, from threads
//! started after others exited, with mixed sizes, and during thread teardown.
#![cfg(feature = "rand")]

use std::collections::{HashMap, HashSet};
use std::sync::mpsc;
use std::sync::{Arc, Barrier};
use std::thread;

use volute::{
    Lut, Lut0, Lut1, Lut10, Lut11, Lut12, Lut2, Lut3, Lut4, Lut5, Lut6, Lut7, Lut8, Lut9,
};

const MAX_VARS: usize = 12;
const DRAWS: usize = 256;

/// Dynamic (false) or static (true) flavour
type Kind = bool;

/// Everything drawn by one thread: (kind, num_vars) -> tables, in draw order
type Draws = HashMap<(Kind, usize), Vec<Vec<u64>>>;

fn expected_blocks(n: usize) -> usize {
    if n <= 6 {
        1
    } else {
        1 << (n - 6)
    }
}

fn full_mask(n: usize) -> u64 {
    if n >= 6 {
        !0u64
    } else {
        (1u64 << (1usize << n)) - 1
    }
}

fn draw_dynamic(n: usize) -> Vec<u64> {
    let lut = Lut::random(n);
    assert_eq!(lut.num_vars(), n);
    assert_eq!(lut.num_bits(), 1 << n);
    let blocks = lut.blocks().to_vec();
    // The accessors agree with the blocks
    for i in [0, (1usize << n) / 2, (1usize << n) - 1] {
        assert_eq!(lut.value(i), (blocks[i >> 6] >> (i & 63)) & 1 != 0);
    }
    // Round trip: a well-formed table is accepted as is
    assert_eq!(Lut::from_blocks(n, &blocks), lut);
    blocks
}

fn draw_static(n: usize) -> Vec<u64> {
    macro_rules! arm {
        ($t:ty) => {{
            let lut = <$t>::random();
            assert_eq!(lut.num_vars(), n);
            assert_eq!(lut.num_bits(), 1 << n);
            assert_eq!(<$t>::from_blocks(lut.blocks()), lut);
            lut.blocks().to_vec()
        }};
    }
    match n {
        0 => arm!(Lut0),
        1 => arm!(Lut1),
        2 => arm!(Lut2),
        3 => arm!(Lut3),
        4 => arm!(Lut4),
        5 => arm!(Lut5),
        6 => arm!(Lut6),
        7 => arm!(Lut7),
        8 => arm!(Lut8),
        9 => arm!(Lut9),
        10 => arm!(Lut10),
        11 => arm!(Lut11),
        12 => arm!(Lut12),
        _ => unreachable!(),
    }
}

fn draw(kind: Kind, n: usize) -> Vec<u64> {
    if kind {
        draw_static(n)
    } else {
        draw_dynamic(n)
    }
}

fn check_well_formed(n: usize, t: &[u64]) {
    assert_eq!(t.len(), expected_blocks(n), "size for {n} variables");
    if n < 6 {
        assert_eq!(t[0] & !full_mask(n), 0, "bit beyond 2^{n}: {:#x}", t[0]);
    }
}

/// Minimum number of distinct tables among 256 draws of a fair generator
/// (each bound fails with negligible probability)
fn min_distinct(n: usize) -> usize {
    match n {
        0 => 2,   // 2 functions
        1 => 4,   // 4 functions
        2 => 12,  // 16 functions
        3 => 100, // 256 functions, about 162 expected
        4 => 240, // 65536 functions
        5 => 254,
        6 => 255,
        _ => 256,
    }
}

/// Checks on a batch of draws of a given size made by one thread
fn check_batch(n: usize, tables: &[Vec<u64>]) {
    assert!(tables.len() >= DRAWS);
    let mut or = vec![0u64; expected_blocks(n)];
    let mut and = vec![!0u64; expected_blocks(n)];
    for t in tables {
        check_well_formed(n, t);
        for (i, w) in t.iter().enumerate() {
            or[i] |= w;
            and[i] &= w;
        }
    }
    // Every assignment receives both values
    for i in 0..expected_blocks(n) {
        assert_eq!(or[i], full_mask(n), "{n} vars: some position is never 1");
        assert_eq!(and[i], 0, "{n} vars: some position is never 0");
    }
    // Draws differ from one another
    for chunk in tables.chunks_exact(DRAWS) {
        let distinct: HashSet<&Vec<u64>> = chunk.iter().collect();
        assert!(
            distinct.len() >= min_distinct(n),
            "{n} vars: only {} distinct tables over {DRAWS} draws",
            distinct.len()
        );
    }
    // No position is stuck relative to the previous draw (the stream moves everywhere)
    let mut changed = vec![0u64; expected_blocks(n)];
    for pair in tables.windows(2) {
        for i in 0..expected_blocks(n) {
            changed[i] |= pair[0][i] ^ pair[1][i];
        }
    }
    for c in changed {
        assert_eq!(c, full_mask(n));
    }
}

/// 256 draws per size and per kind, size after size
fn draw_all() -> Draws {
    let mut ret = Draws::new();
    for n in 0..=MAX_VARS {
        for kind in [false, true] {
            let v = (0..DRAWS).map(|_| draw(kind, n)).collect();
            ret.insert((kind, n), v);
        }
    }
    ret
}

/// Same amount of draws, but sizes and kinds interleaved, with other API calls in between
fn draw_all_mixed() -> Draws {
    let mut ret = Draws::new();
    for round in 0..DRAWS {
        for step in 0..=MAX_VARS {
            // Vary the order from one round to the next
            let n = (step * 5 + round) % (MAX_VARS + 1);
            for kind in [round % 2 == 0, round % 2 != 0] {
                let t = draw(kind, n);
                ret.entry((kind, n)).or_default().push(t);
                // Unrelated work in between
                let a = Lut::nth_var(MAX_VARS, (round + step) % MAX_VARS);
                let b = !&a;
                assert_eq!((&a & &b), Lut::zero(MAX_VARS));
                let c = Lut6::nth_var(step % 6) ^ Lut6::one();
                assert_eq!(!c, Lut6::nth_var(step % 6));
            }
        }
    }
    ret
}

fn check_thread(d: &Draws) {
    for n in 0..=MAX_VARS {
        for kind in [false, true] {
            check_batch(n, &d[&(kind, n)]);
        }
    }
}

/// Checks across all draws made by a set of threads (each given with a label)
fn check_across(all: &[(String, Draws)]) {
    // Large tables never repeat, within a thread, across threads, across kinds
    for n in 7..=MAX_VARS {
        let mut seen: HashMap<&Vec<u64>, &str> = HashMap::new();
        for (label, d) in all {
            for kind in [false, true] {
                for t in &d[&(kind, n)] {
                    if let Some(other) = seen.insert(t, label) {
                        panic!("{n} vars: same table drawn by {other} and {label}");
                    }
                }
            }
        }
    }
    // 64-bit words do not repeat beyond chance: with about 2^23 words at most,
    // a fair generator gives one repeat with probability < 2^-18 and two with < 2^-37
    let mut words: Vec<u64> = Vec::new();
    for (_, d) in all {
        for n in 6..=MAX_VARS {
            for kind in [false, true] {
                for t in &d[&(kind, n)] {
                    words.extend_from_slice(t);
                }
            }
        }
    }
    words.sort_unstable();
    let repeats: Vec<u64> = words
        .windows(2)
        .filter(|w| w[0] == w[1])
        .map(|w| w[0])
        .collect();
    assert!(repeats.len() <= 1, "repeated words: {repeats:x?}");
    // Streams of different threads are unrelated: position by position, the tables of
    // two threads coincide no more often than chance allows
    for n in 0..=MAX_VARS {
        for i in 0..all.len() {
            for j in 0..i {
                let a = &all[i].1[&(false, n)];
                let b = &all[j].1[&(false, n)];
                let same = a.iter().zip(b.iter()).filter(|(x, y)| x == y).count();
                let total = a.len().min(b.len());
                let allowed = match n {
                    0 => total * 7 / 8, // 1/2 expected
                    1 => total * 5 / 8, // 1/4 expected
                    2 => total * 3 / 8, // 1/16 expected
                    3 => total / 8,     // 1/256 expected
                    4 => 4,
                    5 => 2,
                    6 => 1,
                    _ => 0,
                };
                assert!(
                    same <= allowed,
                    "{n} vars: {} and {} agree on {same} draws out of {total}",
                    all[i].0,
                    all[j].0
                );
            }
        }
    }
}

#[test]
fn single_thread() {
    let d = draw_all();
    check_thread(&d);
    let m = draw_all_mixed();
    check_thread(&m);
    check_across(&[("plain".to_string(), d), ("mixed".to_string(), m)]);
}

#[test]
fn sixteen_threads() {
    const THREADS: usize = 16;
    let barrier = Arc::new(Barrier::new(THREADS));
    let handles: Vec<_> = (0..THREADS)
        .map(|i| {
            let barrier = barrier.clone();
            thread::spawn(move || {
                // Start together, to maximize contention at initialization
                barrier.wait();
                let d = if i % 2 == 0 {
                    draw_all()
                } else {
                    draw_all_mixed()
                };
                check_thread(&d);
                (format!("thread {i}"), d)
            })
        })
        .collect();
    let all: Vec<_> = handles.into_iter().map(|h| h.join().unwrap()).collect();
    check_across(&all);
}

#[test]
fn successive_generations() {
    // Threads that start after others have exited (and may inherit their generators)
    // must not replay anything that was drawn before
    const THREADS: usize = 16;
    const GENERATIONS: usize = 4;
    let mut all = Vec::new();
    for g in 0..GENERATIONS {
        let handles: Vec<_> = (0..THREADS)
            .map(|i| {
                thread::spawn(move || {
                    let d = draw_all();
                    check_thread(&d);
                    (format!("generation {g} thread {i}"), d)
                })
            })
            .collect();
        // All the threads of a generation are gone before the next one starts
        for h in handles {
            all.push(h.join().unwrap());
        }
    }
    // One thread at a time: each one is in position to reuse what the previous one left
    for g in 0..16 {
        let h = thread::spawn(move || {
            let d = draw_all();
            check_thread(&d);
            (format!("chain {g}"), d)
        });
        all.push(h.join().unwrap());
    }
    check_across(&all);
}

#[test]
fn many_short_threads() {
    // Many more threads than any pool would hold, each drawing very little:
    // the first words seen by each thread must all differ
    let mut seen = HashSet::new();
    for _ in 0..8 {
        let handles: Vec<_> = (0..100)
            .map(|_| {
                thread::spawn(|| {
                    let a = draw_dynamic(6);
                    let b = draw_static(7);
                    let c = draw_dynamic(12);
                    (a, b, c)
                })
            })
            .collect();
        for h in handles {
            let (a, b, c) = h.join().unwrap();
            check_well_formed(6, &a);
            check_well_formed(7, &b);
            check_well_formed(12, &c);
            for w in a.iter().chain(b.iter()).chain(c.iter()) {
                assert!(seen.insert(*w), "word {w:#x} seen twice");
            }
        }
    }
}

/// Draws random functions when the thread that owns it exits
struct DrawOnExit {
    tx: mpsc::Sender<(usize, Vec<u64>)>,
}

impl Drop for DrawOnExit {
    fn drop(&mut self) {
        for _ in 0..DRAWS {
            for n in [0, 3, 6, 8, 12] {
                self.tx.send((n, draw_dynamic(n))).unwrap();
                self.tx.send((n, draw_static(n))).unwrap();
            }
        }
    }
}

thread_local! {
    static EARLY: std::cell::RefCell<Option<DrawOnExit>> = const { std::cell::RefCell::new(None) };
    static LATE: std::cell::RefCell<Option<DrawOnExit>> = const { std::cell::RefCell::new(None) };
}

#[test]
fn during_thread_teardown() {
    for use_before in [true, false] {
        let (tx, rx) = mpsc::channel();
        let handles: Vec<_> = (0..4)
            .map(|_| {
                let tx = tx.clone();
                thread::spawn(move || {
                    // Registered before the first call to random() in this thread...
                    EARLY.with(|e| *e.borrow_mut() = Some(DrawOnExit { tx: tx.clone() }));
                    if use_before {
                        for _ in 0..DRAWS {
                            for n in [6, 8, 12] {
                                tx.send((n, draw_dynamic(n))).unwrap();
                            }
                        }
                    }
                    // ... and after: whatever the destruction order, both must work
                    LATE.with(|e| *e.borrow_mut() = Some(DrawOnExit { tx }));
                })
            })
            .collect();
        drop(tx);
        for h in handles {
            // Every call returns, nothing panics during teardown
            h.join().unwrap();
        }
        let mut per_size: HashMap<usize, Vec<Vec<u64>>> = HashMap::new();
        let mut words = HashSet::new();
        let mut repeats = 0;
        for (n, t) in rx {
            check_well_formed(n, &t);
            if n >= 6 {
                for w in &t {
                    if !words.insert(*w) {
                        repeats += 1;
                    }
                }
            }
            per_size.entry(n).or_default().push(t);
        }
        assert!(repeats <= 1, "{repeats} repeated words");
        for n in [0, 3, 6, 8, 12] {
            let tables = &per_size[&n];
            // 4 threads, 2 destructors, 2 kinds, 256 draws
            assert!(tables.len() >= 4 * 2 * 2 * DRAWS);
            let mut or = vec![0u64; expected_blocks(n)];
            let mut and = vec![!0u64; expected_blocks(n)];
            for t in tables {
                for (i, w) in t.iter().enumerate() {
                    or[i] |= w;
                    and[i] &= w;
                }
            }
            for i in 0..expected_blocks(n) {
                assert_eq!(or[i], full_mask(n));
                assert_eq!(and[i], 0);
            }
        }
    }
}
