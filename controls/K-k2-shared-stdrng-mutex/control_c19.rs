//! Checks that random() yields well-formed, non-degenerate, call-independent functions,
//! for every size in 0..=12, for Lut and LutN, from one or many threads.
#![cfg(feature = "rand")]

use std::collections::HashSet;
use std::sync::{Arc, Barrier};
use std::thread;

use volute::{
    Lut, Lut0, Lut1, Lut10, Lut11, Lut12, Lut2, Lut3, Lut4, Lut5, Lut6, Lut7, Lut8, Lut9,
};

const DRAWS: usize = 256;
const THREADS: usize = 16;

/// One draw, as (num_vars, blocks)
type Draw = (usize, Vec<u64>);

fn draw_dynamic(n: usize) -> Draw {
    let l = Lut::random(n);
    assert_eq!(l.num_vars(), n);
    assert_eq!(l.num_bits(), 1 << n);
    (n, l.blocks().to_vec())
}

fn draw_static(n: usize) -> Draw {
    macro_rules! go {
        ($t:ty) => {{
            let l = <$t>::random();
            assert_eq!(l.num_vars(), n);
            // The conversion must agree with the blocks
            let d: Lut = l.into();
            assert_eq!(d.blocks(), l.blocks());
            (n, l.blocks().to_vec())
        }};
    }
    match n {
        0 => go!(Lut0),
        1 => go!(Lut1),
        2 => go!(Lut2),
        3 => go!(Lut3),
        4 => go!(Lut4),
        5 => go!(Lut5),
        6 => go!(Lut6),
        7 => go!(Lut7),
        8 => go!(Lut8),
        9 => go!(Lut9),
        10 => go!(Lut10),
        11 => go!(Lut11),
        12 => go!(Lut12),
        _ => unreachable!(),
    }
}

fn expected_len(n: usize) -> usize {
    if n <= 6 {
        1
    } else {
        1 << (n - 6)
    }
}

fn expected_mask(n: usize) -> u64 {
    if n >= 6 {
        !0
    } else {
        (1u64 << (1 << n)) - 1
    }
}

/// No bit beyond 2^n, right number of words
fn check_well_formed(d: &Draw) {
    let (n, blocks) = d;
    assert_eq!(blocks.len(), expected_len(*n), "wrong table length for n={n}");
    for b in blocks {
        assert_eq!(b & !expected_mask(*n), 0, "stray bit for n={n}: {b:#x}");
    }
}

/// Every position gets both values over the draws of one size
fn check_both_values(n: usize, draws: &[Draw]) {
    assert!(draws.len() >= DRAWS);
    let len = expected_len(n);
    let mut ones = vec![0u64; len];
    let mut zeros = vec![0u64; len];
    for (m, blocks) in draws {
        assert_eq!(*m, n);
        for (i, b) in blocks.iter().enumerate() {
            ones[i] |= b;
            zeros[i] |= !b;
        }
    }
    for i in 0..len {
        assert_eq!(ones[i], expected_mask(n), "n={n}: position never true in word {i}");
        assert_eq!(
            zeros[i] & expected_mask(n),
            expected_mask(n),
            "n={n}: position never false in word {i}"
        );
    }
}

/// Draws differ from one another, as far as chance allows.
/// For n >= 6 every table and every 64-bit word must be unique (collision probability < 2^-30
/// for the whole suite). For small n collisions are expected, and we only ask for many values.
fn check_distinct(n: usize, draws: &[Draw]) {
    let tables: HashSet<&Vec<u64>> = draws.iter().map(|d| &d.1).collect();
    if n >= 6 {
        assert_eq!(tables.len(), draws.len(), "n={n}: repeated table");
        let words: Vec<u64> = draws.iter().flat_map(|d| d.1.iter().copied()).collect();
        let uniq: HashSet<u64> = words.iter().copied().collect();
        assert_eq!(uniq.len(), words.len(), "n={n}: repeated 64-bit word");
    } else {
        // 2^(2^n) possible values
        let min_distinct = match n {
            0 => 2,
            1 => 4,
            2 => 12,
            3 => 100,
            4 => draws.len() * 9 / 10,
            5 => draws.len() - 2,
            _ => unreachable!(),
        };
        assert!(
            tables.len() >= min_distinct,
            "n={n}: only {} distinct tables over {} draws",
            tables.len(),
            draws.len()
        );
    }
}

/// Bits are fair overall: the total popcount is within 8 standard deviations of one half
fn check_fair(n: usize, draws: &[Draw]) {
    let total = (draws.len() as f64) * ((1u64 << n) as f64);
    let ones: u64 = draws
        .iter()
        .map(|d| d.1.iter().map(|b| b.count_ones() as u64).sum::<u64>())
        .sum();
    let dev = (ones as f64 - total / 2.0).abs();
    let sigma = (total / 4.0).sqrt();
    assert!(dev <= 8.0 * sigma, "n={n}: {ones} ones over {total} bits");
}

fn check_all(n: usize, draws: &[Draw]) {
    for d in draws {
        check_well_formed(d);
    }
    check_both_values(n, draws);
    check_distinct(n, draws);
    check_fair(n, draws);
}

/// The workload of one thread: 256 draws of each size for each type
fn thread_workload() -> Vec<(bool, Vec<Draw>)> {
    let mut ret = Vec::new();
    for n in 0..=12 {
        ret.push((false, (0..DRAWS).map(|_| draw_dynamic(n)).collect()));
        ret.push((true, (0..DRAWS).map(|_| draw_static(n)).collect()));
    }
    ret
}

fn check_workloads(all: &[Vec<(bool, Vec<Draw>)>]) {
    // Per thread, per type
    for w in all {
        for (_, draws) in w {
            check_all(draws[0].0, draws);
        }
    }
    // Across threads and types
    for n in 0..=12 {
        let mut merged: Vec<Draw> = Vec::new();
        for w in all {
            for (_, draws) in w {
                if draws[0].0 == n {
                    merged.extend(draws.iter().cloned());
                }
            }
        }
        assert_eq!(merged.len(), all.len() * 2 * DRAWS);
        check_all(n, &merged);
    }
    // Words must not repeat across sizes either
    let mut seen = HashSet::new();
    for w in all {
        for (_, draws) in w {
            for (n, blocks) in draws {
                if *n >= 6 {
                    for b in blocks {
                        assert!(seen.insert(*b), "word repeated across sizes");
                    }
                }
            }
        }
    }
}

#[test]
fn single_thread() {
    let w = thread_workload();
    check_workloads(&[w]);
}

#[test]
fn sixteen_threads() {
    let barrier = Arc::new(Barrier::new(THREADS));
    let handles: Vec<_> = (0..THREADS)
        .map(|_| {
            let b = barrier.clone();
            thread::spawn(move || {
                b.wait();
                thread_workload()
            })
        })
        .collect();
    let all: Vec<_> = handles.into_iter().map(|h| h.join().unwrap()).collect();
    check_workloads(&all);
}

/// The same positions of the streams of two threads must be unrelated
#[test]
fn threads_are_not_correlated() {
    let barrier = Arc::new(Barrier::new(THREADS));
    let handles: Vec<_> = (0..THREADS)
        .map(|_| {
            let b = barrier.clone();
            thread::spawn(move || {
                b.wait();
                (0..DRAWS).map(|_| draw_dynamic(6).1[0]).collect::<Vec<u64>>()
            })
        })
        .collect();
    let all: Vec<Vec<u64>> = handles.into_iter().map(|h| h.join().unwrap()).collect();
    for i in 0..THREADS {
        for j in 0..i {
            // xor of the two streams must be fair and never zero
            let mut ones = 0u64;
            for k in 0..DRAWS {
                let x = all[i][k] ^ all[j][k];
                assert_ne!(x, 0);
                ones += x.count_ones() as u64;
            }
            let total = (DRAWS * 64) as f64;
            let dev = (ones as f64 - total / 2.0).abs();
            assert!(dev <= 8.0 * (total / 4.0).sqrt());
            // Lagged copies: no stream is a shifted version of another
            let sj: HashSet<u64> = all[j].iter().copied().collect();
            assert!(all[i].iter().all(|w| !sj.contains(w)));
        }
    }
}

/// Threads that start after others have exited must not replay earlier streams
#[test]
fn successive_generations() {
    let mut seen_words: HashSet<u64> = HashSet::new();
    let mut per_size: Vec<Vec<Draw>> = vec![Vec::new(); 13];
    for _generation in 0..8 {
        let handles: Vec<_> = (0..4)
            .map(|_| {
                thread::spawn(|| {
                    let mut v = Vec::new();
                    for n in 0..=12 {
                        for _ in 0..16 {
                            v.push(draw_dynamic(n));
                            v.push(draw_static(n));
                        }
                    }
                    v
                })
            })
            .collect();
        // All threads of the generation are gone before the next one starts
        for h in handles {
            for d in h.join().unwrap() {
                check_well_formed(&d);
                if d.0 >= 6 {
                    for b in &d.1 {
                        assert!(seen_words.insert(*b), "word replayed in a later generation");
                    }
                }
                per_size[d.0].push(d);
            }
        }
    }
    for (n, draws) in per_size.iter().enumerate() {
        assert_eq!(draws.len(), 8 * 4 * 32);
        check_all(n, draws);
    }
}

/// Mixed sizes interleaved on one thread, with other API calls in between
#[test]
fn mixed_sizes_interleaved() {
    let mut per_size: Vec<Vec<Draw>> = vec![Vec::new(); 13];
    for round in 0..2 * DRAWS {
        // Ascending and descending orders alternate, so that every size follows every neighbour
        let order: Vec<usize> = if round % 2 == 0 {
            (0..=12).collect()
        } else {
            (0..=12).rev().collect()
        };
        for n in order {
            let d = if (round / 2) % 2 == 0 {
                draw_dynamic(n)
            } else {
                draw_static(n)
            };
            // Unrelated calls in between
            let l = Lut::from_blocks(n, &d.1);
            assert_eq!(!(!&l), l);
            assert_eq!(Lut::nth_var(n.max(1), 0).num_vars(), n.max(1));
            per_size[n].push(d);
        }
    }
    for (n, draws) in per_size.iter().enumerate() {
        check_all(n, draws);
    }
}

/// A long run crosses the reseeding boundaries of the shared generator: the stream must stay
/// well-formed and free of repetitions throughout
#[test]
fn long_run() {
    let handles: Vec<_> = (0..4)
        .map(|_| {
            thread::spawn(|| {
                // 4 threads x 6000 tables x 64 words > 1.5M words
                let mut firsts = Vec::new();
                let mut ones = [0u64; 64];
                let mut zeros = [0u64; 64];
                for _ in 0..6000 {
                    let l = Lut12::random();
                    let b = l.blocks();
                    assert_eq!(b.len(), 64);
                    for i in 0..64 {
                        ones[i] |= b[i];
                        zeros[i] |= !b[i];
                    }
                    firsts.extend_from_slice(b);
                }
                assert!(ones.iter().all(|w| *w == !0));
                assert!(zeros.iter().all(|w| *w == !0));
                firsts
            })
        })
        .collect();
    let mut seen = HashSet::new();
    for h in handles {
        for w in h.join().unwrap() {
            assert!(seen.insert(w), "repeated word in long run");
        }
    }
}
