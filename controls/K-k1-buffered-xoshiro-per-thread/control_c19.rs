//! random() yields well-formed, non-degenerate, call-independent functions,
//! for every size, for Lut and LutN, from any thread.
#![cfg(feature = "rand")]

use std::collections::HashSet;
use std::sync::{Arc, Barrier};
use std::thread;

use volute::{
    Lut, Lut0, Lut1, Lut10, Lut11, Lut12, Lut2, Lut3, Lut4, Lut5, Lut6, Lut7, Lut8, Lut9,
};

const MAX_VARS: usize = 12;
const DRAWS: usize = 256;

/// A random table reduced to its public, observable content: one bool per assignment
type Bits = Vec<bool>;

fn lut_bits(l: &Lut) -> Bits {
    (0..l.num_bits()).map(|i| l.value(i)).collect()
}

/// The internal representation: the right number of words, no bit beyond 2^n, and the same
/// content as what value() shows
fn check_blocks(n: usize, blocks: &[u64], bits: &Bits) {
    let expected_blocks = if n <= 6 { 1 } else { 1usize << (n - 6) };
    assert_eq!(blocks.len(), expected_blocks);
    if n < 6 {
        assert_eq!(blocks[0] >> (1u32 << n), 0, "n={n}: bits set beyond 2^n");
    }
    assert_eq!(blocks, &words(bits)[..]);
}

/// Draw a dynamic Lut and check that it is well-formed
fn draw_lut(n: usize) -> Bits {
    let l = Lut::random(n);
    assert_eq!(l.num_vars(), n);
    assert_eq!(l.num_bits(), 1 << n);
    let bits = lut_bits(&l);
    // No bit beyond 2^n: the hidden part of the table must be the same as for a table
    // built bit by bit, which is observable through equality, hex formatting and counts
    let mut rebuilt = Lut::zero(n);
    for (i, b) in bits.iter().enumerate() {
        rebuilt.set_value(i, *b);
    }
    assert_eq!(l, rebuilt);
    assert_eq!(l.to_hex_string(), rebuilt.to_hex_string());
    check_blocks(n, l.blocks(), &bits);
    assert_eq!(l.num_blocks(), l.blocks().len());
    assert_eq!(!&(!&l), l);
    assert_eq!(Lut::from_hex_string(n, &l.to_hex_string()).unwrap(), l);
    bits
}

macro_rules! draw_static {
    ($t:ty, $n:expr) => {{
        let l = <$t>::random();
        assert_eq!(l.num_vars(), $n);
        assert_eq!(l.num_bits(), 1usize << $n);
        let bits: Bits = (0..l.num_bits()).map(|i| l.value(i)).collect();
        let mut rebuilt = <$t>::zero();
        for (i, b) in bits.iter().enumerate() {
            rebuilt.set_value(i, *b);
        }
        assert_eq!(l, rebuilt);
        assert_eq!(l.to_hex_string(), rebuilt.to_hex_string());
        check_blocks($n, l.blocks(), &bits);
        assert_eq!(l.num_blocks(), l.blocks().len());
        assert_eq!(!(!l), l);
        assert_eq!(<$t>::from_hex_string(&l.to_hex_string()).unwrap(), l);
        // Same thing seen as a dynamic Lut
        let dynamic: Lut = l.into();
        assert_eq!(lut_bits(&dynamic), bits);
        bits
    }};
}

/// Draw a static Lut of the given size and check that it is well-formed
fn draw_static_lut(n: usize) -> Bits {
    match n {
        0 => draw_static!(Lut0, 0),
        1 => draw_static!(Lut1, 1),
        2 => draw_static!(Lut2, 2),
        3 => draw_static!(Lut3, 3),
        4 => draw_static!(Lut4, 4),
        5 => draw_static!(Lut5, 5),
        6 => draw_static!(Lut6, 6),
        7 => draw_static!(Lut7, 7),
        8 => draw_static!(Lut8, 8),
        9 => draw_static!(Lut9, 9),
        10 => draw_static!(Lut10, 10),
        11 => draw_static!(Lut11, 11),
        12 => draw_static!(Lut12, 12),
        _ => unreachable!(),
    }
}

fn draw(is_static: bool, n: usize) -> Bits {
    if is_static {
        draw_static_lut(n)
    } else {
        draw_lut(n)
    }
}

/// 64-bit words of a table, as seen from the public interface
fn words(bits: &Bits) -> Vec<u64> {
    bits.chunks(64)
        .map(|c| {
            c.iter()
                .enumerate()
                .fold(0u64, |w, (i, b)| w | ((*b as u64) << i))
        })
        .collect()
}

/// Checks on a sample of draws of one size: non-degenerate at every position, and distinct
///
/// With a fair generator:
///   * a given position is constant over k draws with probability 2^(1-k); with k >= 256 and
///     at most 4096 positions this is below 2^-240 overall;
///   * two given tables of 2^n >= 64 bits are equal with probability at most 2^-64.
///     Exact duplicates are only forbidden for n >= 8 (256 bits and more: below 2^-200 for
///     all the pairs that this file ever compares). For smaller tables duplicates are expected
///     or at least possible, and we check the number of distinct tables instead.
fn check_sample(n: usize, sample: &[Bits]) {
    assert!(sample.len() >= DRAWS);
    let num_bits = 1usize << n;
    for pos in 0..num_bits {
        let ones = sample.iter().filter(|b| b[pos]).count();
        assert!(ones > 0, "n={n}: position {pos} is never set");
        assert!(ones < sample.len(), "n={n}: position {pos} is always set");
    }
    let distinct: HashSet<&Bits> = sample.iter().collect();
    match n {
        // 2 and 4 possible tables: all of them show up (miss probability below 2^-100)
        0 => assert_eq!(distinct.len(), 2),
        1 => assert_eq!(distinct.len(), 4),
        // 16 tables: all of them show up, (15/16)^256 * 16 < 2^-19 per sample... not negligible
        // enough across the whole file, so only require most of them
        2 => assert!(distinct.len() >= 12, "n=2: {} distinct", distinct.len()),
        // 256 tables, 256+ draws: about 162 distinct expected, fewer than 100 is out of reach
        3 => assert!(distinct.len() >= 100, "n=3: {} distinct", distinct.len()),
        // 65536 tables: about 0.5 colliding pair expected per 256 draws
        4 => assert!(
            distinct.len() + 16 >= sample.len().min(4096),
            "n=4: {} distinct out of {}",
            distinct.len(),
            sample.len()
        ),
        // 2^32 tables: a collision among up to ~10^4 draws has probability ~1%; allow a few
        5 => assert!(
            distinct.len() + 4 >= sample.len(),
            "n=5: {} distinct out of {}",
            distinct.len(),
            sample.len()
        ),
        // 2^64 tables: a single collision among 10^4 draws has probability 2^-38; two do not happen
        6 | 7 => assert!(
            distinct.len() + 1 >= sample.len(),
            "n={n}: {} distinct out of {}",
            distinct.len(),
            sample.len()
        ),
        _ => assert_eq!(distinct.len(), sample.len(), "n={n}: repeated table"),
    }
}

/// No 64-bit word shows up twice among full-word tables, beyond chance.
/// With N words the expected number of equal pairs is N^2 / 2^65: for N up to 2^21 this is
/// 2^-23, so a single repeat is already unlikely and two are out of reach.
fn check_words(all: &[Bits]) {
    let mut seen = HashSet::new();
    let mut repeats = 0;
    let mut total = 0usize;
    for bits in all {
        if bits.len() < 64 {
            continue;
        }
        for w in words(bits) {
            total += 1;
            if !seen.insert(w) {
                repeats += 1;
            }
        }
    }
    assert!(repeats <= 1, "{repeats} repeated words out of {total}");
}

/// All the draws for one thread: `DRAWS` tables for each size and each type
fn thread_samples() -> Vec<(bool, usize, Vec<Bits>)> {
    let mut ret = Vec::new();
    for is_static in [false, true] {
        for n in 0..=MAX_VARS {
            let sample: Vec<Bits> = (0..DRAWS).map(|_| draw(is_static, n)).collect();
            ret.push((is_static, n, sample));
        }
    }
    ret
}

fn check_thread_samples(samples: &[(bool, usize, Vec<Bits>)]) {
    let mut all = Vec::new();
    for (_, n, sample) in samples {
        check_sample(*n, sample);
        all.extend(sample.iter().cloned());
    }
    check_words(&all);
    // Both types together, per size
    for n in 0..=MAX_VARS {
        let merged: Vec<Bits> = samples
            .iter()
            .filter(|(_, m, _)| *m == n)
            .flat_map(|(_, _, s)| s.iter().cloned())
            .collect();
        check_sample(n, &merged);
    }
}

/// Merge the samples of several threads and check them together: the streams of different
/// threads must be as different from one another as successive draws on one thread
fn check_across_threads(per_thread: &[Vec<(bool, usize, Vec<Bits>)>]) {
    for n in 0..=MAX_VARS {
        let merged: Vec<Bits> = per_thread
            .iter()
            .flat_map(|t| t.iter())
            .filter(|(_, m, _)| *m == n)
            .flat_map(|(_, _, s)| s.iter().cloned())
            .collect();
        check_sample(n, &merged);
    }
    // Words: only for moderate sizes, to keep the number of words (and the chance of a
    // legitimate repeat) small: 6..=9 gives 2 * 256 * (1 + 2 + 4 + 8) words per thread
    let all: Vec<Bits> = per_thread
        .iter()
        .flat_map(|t| t.iter())
        .filter(|(_, m, _)| (6..=9).contains(m))
        .flat_map(|(_, _, s)| s.iter().cloned())
        .collect();
    check_words(&all);

    // The k-th draw of every thread, for the same size: identical or related streams started
    // at the same point would show here first
    for n in 6..=MAX_VARS {
        for is_static in [false, true] {
            for k in [0, 1, 15, 16, 17, DRAWS - 1] {
                let firsts: Vec<&Bits> = per_thread
                    .iter()
                    .flat_map(|t| t.iter())
                    .filter(|(s, m, _)| *m == n && *s == is_static)
                    .map(|(_, _, s)| &s[k])
                    .collect();
                let distinct: HashSet<&&Bits> = firsts.iter().collect();
                assert_eq!(distinct.len(), firsts.len(), "n={n}, draw {k}");
            }
        }
    }
}

#[test]
fn single_thread() {
    let samples = thread_samples();
    check_thread_samples(&samples);
}

#[test]
fn sixteen_threads() {
    let num_threads = 16;
    let barrier = Arc::new(Barrier::new(num_threads));
    let handles: Vec<_> = (0..num_threads)
        .map(|_| {
            let barrier = barrier.clone();
            thread::spawn(move || {
                // Start (and initialize) all at once
                barrier.wait();
                thread_samples()
            })
        })
        .collect();
    let per_thread: Vec<_> = handles.into_iter().map(|h| h.join().unwrap()).collect();
    for t in &per_thread {
        check_thread_samples(t);
    }
    check_across_threads(&per_thread);
}

/// The very first table of a thread, for many threads racing on their first call
#[test]
fn first_draw_of_many_threads() {
    for n in [6usize, 7, 12] {
        let num_threads = 64;
        let barrier = Arc::new(Barrier::new(num_threads));
        let handles: Vec<_> = (0..num_threads)
            .map(|i| {
                let barrier = barrier.clone();
                thread::spawn(move || {
                    barrier.wait();
                    let a = draw(i % 2 == 0, n);
                    let b = draw(i % 2 == 1, n);
                    (a, b)
                })
            })
            .collect();
        let mut all = Vec::new();
        for h in handles {
            let (a, b) = h.join().unwrap();
            all.push(a);
            all.push(b);
        }
        let distinct: HashSet<&Bits> = all.iter().collect();
        assert_eq!(distinct.len(), all.len(), "n={n}");
        check_words(&all);
    }
}

/// Threads that start after the previous ones have exited (and may reuse their resources:
/// stack, thread-local storage, thread id) must not replay their streams
#[test]
fn successive_generations() {
    let generations = 48;
    let mut per_size: Vec<Vec<Bits>> = vec![Vec::new(); MAX_VARS + 1];
    let mut firsts: Vec<Bits> = Vec::new();
    for g in 0..generations {
        let handle = thread::spawn(move || {
            let first = draw(g % 2 == 0, 7);
            let mut ret: Vec<(usize, Bits)> = Vec::new();
            for k in 0..8 {
                for n in 0..=MAX_VARS {
                    ret.push((n, draw((g + k + n) % 2 == 0, n)));
                }
            }
            (first, ret)
        });
        let (first, ret) = handle.join().unwrap();
        firsts.push(first);
        for (n, bits) in ret {
            per_size[n].push(bits);
        }
        // The main thread keeps drawing in between
        per_size[8].push(draw(false, 8));
    }
    let distinct: HashSet<&Bits> = firsts.iter().collect();
    assert_eq!(distinct.len(), firsts.len());
    check_words(&firsts);
    for (n, sample) in per_size.iter().enumerate() {
        // 48 * 8 = 384 draws per size
        check_sample(n, sample);
    }
    let all: Vec<Bits> = per_size[6..=10].iter().flatten().cloned().collect();
    check_words(&all);
}

/// Several generations of concurrent threads
#[test]
fn successive_concurrent_generations() {
    let mut all: Vec<Bits> = Vec::new();
    for _ in 0..6 {
        let handles: Vec<_> = (0..16)
            .map(|i| {
                thread::spawn(move || {
                    (0..20)
                        .map(|k| draw((i + k) % 2 == 0, 6 + (k % 4)))
                        .collect::<Vec<Bits>>()
                })
            })
            .collect();
        for h in handles {
            all.extend(h.join().unwrap());
        }
    }
    let distinct: HashSet<&Bits> = all.iter().collect();
    assert_eq!(distinct.len(), all.len());
    check_words(&all);
}

/// Sizes interleaved on one thread, in an irregular order, with other API calls in between
#[test]
fn mixed_sizes_interleaved() {
    let mut per_size: Vec<Vec<Bits>> = vec![Vec::new(); MAX_VARS + 1];
    let mut x: u64 = 12345;
    let mut sink = 0usize;
    while per_size.iter().any(|s| s.len() < DRAWS) {
        // Small deterministic schedule (not a source of randomness for the tables)
        x = x
            .wrapping_mul(6364136223846793005)
            .wrapping_add(1442695040888963407);
        let n = ((x >> 33) % (MAX_VARS as u64 + 1)) as usize;
        let is_static = (x >> 20) & 1 == 0;
        per_size[n].push(draw(is_static, n));
        if (x >> 21) & 3 == 0 {
            // Unrelated work on the same thread
            let a = Lut::nth_var(5, ((x >> 40) % 5) as usize);
            let b = Lut::threshold(5, 2);
            sink += (&a ^ &b).blocks()[0].count_ones() as usize;
            sink += Lut::majority(7).blocks()[1].count_ones() as usize;
            sink += Lut3::parity().blocks()[0].count_ones() as usize;
        }
    }
    assert!(sink > 0);
    for (n, sample) in per_size.iter().enumerate() {
        check_sample(n, sample);
    }
    let all: Vec<Bits> = per_size[6..=10].iter().flatten().cloned().collect();
    check_words(&all);
}

/// Consecutive single-word tables of different small sizes must not be slices of one
/// another: the bits dropped by the mask are not reused for the next table
#[test]
fn small_tables_are_not_related() {
    let mut agree = 0usize;
    let mut total = 0usize;
    for _ in 0..4096 {
        let a = draw(false, 6);
        let b = draw(true, 5);
        let c = draw(false, 4);
        for i in 0..32 {
            total += 1;
            agree += (a[i] == b[i]) as usize;
        }
        for i in 0..16 {
            total += 1;
            agree += (b[i] == c[i]) as usize;
            total += 1;
            agree += (a[i + 32] == c[i]) as usize;
        }
    }
    // 262144 fair coin flips: standard deviation 256; 40 sigmas
    let half = total / 2;
    assert!(
        agree > half - 10240 && agree < half + 10240,
        "{agree} / {total}"
    );
}

/// A long run on one thread: many buffer refills, no cycle, no drift in the bit balance
#[test]
fn long_run() {
    let mut seen = HashSet::new();
    let mut ones = 0usize;
    let mut total = 0usize;
    let mut repeats = 0;
    for i in 0..20000 {
        let n = 6 + (i % 3);
        let bits = draw(i % 2 == 0, n);
        ones += bits.iter().filter(|b| **b).count();
        total += bits.len();
        for w in words(&bits) {
            if !seen.insert(w) {
                repeats += 1;
            }
        }
    }
    assert!(repeats <= 1);
    // About 2.5M fair coin flips: standard deviation below 800; 40 sigmas
    let half = total / 2;
    assert!(
        ones > half - 32000 && ones < half + 32000,
        "{ones} / {total}"
    );
}

/// Small version of the thread tests, cheap enough for an interpreter (Miri) or a slow target
#[test]
fn smoke_threads_small() {
    let mut all: Vec<Bits> = Vec::new();
    for _ in 0..2 {
        let barrier = Arc::new(Barrier::new(4));
        let handles: Vec<_> = (0..4)
            .map(|i| {
                let barrier = barrier.clone();
                thread::spawn(move || {
                    barrier.wait();
                    let mut ret = Vec::new();
                    // 6 single-word and 3 multi-word tables: crosses a refill boundary
                    for k in 0..6 {
                        ret.push(draw((i + k) % 2 == 0, 6));
                    }
                    ret.push(draw(i % 2 == 0, 9));
                    ret.push(draw(i % 2 == 1, 9));
                    ret.push(draw(i % 2 == 0, 7));
                    for n in 0..6 {
                        draw(n % 2 == 0, n);
                    }
                    ret
                })
            })
            .collect();
        for h in handles {
            all.extend(h.join().unwrap());
        }
        all.push(draw(false, 8));
    }
    let distinct: HashSet<&Bits> = all.iter().collect();
    assert_eq!(distinct.len(), all.len());
    check_words(&all);
}
