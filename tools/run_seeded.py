#!/usr/bin/env python3
"""Run the registered C19 check against every seeded change in /verif/seeded/*/patch.diff.

For each: git -C /repo apply <patch>; ./check C19 <tier>; git -C /repo checkout -- .
Evidence and replay files of these runs go to /verif/work/seeded/<id>/ (never to /verif/evidence).
Prints a catch matrix and appends what was run to each meta.json ("checks_run").
usage: tools/run_seeded.py [quick|thorough] [--scratch] [id-substring ...]
  --scratch: do not touch /repo; run `./check trypatch <patch> <tier>` (scratch copy of /repo and of the
             harness) instead, so that several of these can run side by side and next to other work.
             Results are printed but NOT recorded in meta.json (only runs against /repo itself are).
"""
import json, os, subprocess, sys, time
VERIF = os.path.dirname(os.path.dirname(os.path.abspath(__file__)))
tier = sys.argv[1] if len(sys.argv) > 1 else "quick"
scratch = "--scratch" in sys.argv
filt = [a for a in sys.argv[2:] if not a.startswith("--")]
if scratch:
    rows = []
    for sid in sorted(os.listdir(os.path.join(VERIF, "seeded"))):
        if filt and not any(f in sid for f in filt):
            continue
        work = os.path.join(VERIF, "work", "seeded-scratch-%s" % os.environ.get("VERIF_SEED", "1"), sid)
        os.makedirs(work, exist_ok=True)
        for f in os.listdir(work):
            os.remove(os.path.join(work, f))
        t0 = time.time()
        p = subprocess.run(["./check", "trypatch", os.path.join(VERIF, "seeded", sid, "patch.diff"), tier], cwd=VERIF,
                           env=dict(os.environ, VERIF_REPLAY_DIR=work), capture_output=True, text=True)
        os.makedirs(work, exist_ok=True)
        open(os.path.join(work, "output.txt"), "w").write(p.stdout + p.stderr)
        classes = sorted(set(json.load(open(os.path.join(work, f)))["class"] for f in os.listdir(work) if f.startswith("C19-") and f.endswith(".json")))
        row = {"id": sid, "tier": tier, "seed": os.environ.get("VERIF_SEED", "1"), "exit": p.returncode, "classes": classes, "wall_s": round(time.time() - t0)}
        rows.append(row)
        print(json.dumps(row), flush=True)
    print("caught %d / %d" % (sum(1 for r in rows if r["exit"] == 1), len(rows)))
    sys.exit(0)
if subprocess.run(["git", "-C", "/repo", "status", "--porcelain", "--untracked-files=no"], capture_output=True, text=True).stdout.strip():
    sys.exit("refusing: /repo has uncommitted changes")
def revert():
    """undo a seeded change: tracked files back to HEAD, files the patch created under src/ removed"""
    subprocess.run(["git", "-C", "/repo", "checkout", "--", "."], check=True)
    subprocess.run(["git", "-C", "/repo", "clean", "-fdq", "--", "src"], check=True)


rows = []
for sid in sorted(os.listdir(os.path.join(VERIF, "seeded"))):
    d = os.path.join(VERIF, "seeded", sid)
    if filt and not any(f in sid for f in filt):
        continue
    work = os.path.join(VERIF, "work", "seeded", sid)
    os.makedirs(work, exist_ok=True)
    for f in os.listdir(work):
        os.remove(os.path.join(work, f))
    env = dict(os.environ, VERIF_EVIDENCE_DIR=work, VERIF_REPLAY_DIR=work)
    t0 = time.time()
    try:
        subprocess.run(["git", "-C", "/repo", "apply", os.path.join(d, "patch.diff")], check=True)
        p = subprocess.run(["./check", "C19", tier], cwd=VERIF, env=env, capture_output=True, text=True)
    finally:
        revert()
    out = p.stdout
    open(os.path.join(work, "output.txt"), "w").write(out + p.stderr)
    classes = sorted(set(json.load(open(os.path.join(work, f)))["class"] for f in os.listdir(work) if f.startswith("C19-") and f.endswith(".json")))
    # replay each file once more in a fresh process while the patch is applied
    replayed = None
    reps = [f for f in os.listdir(work) if f.startswith("C19-") and f.endswith(".json")]
    if reps:
        try:
            subprocess.run(["git", "-C", "/repo", "apply", os.path.join(d, "patch.diff")], check=True)
            rp = subprocess.run(["./check", "C19", "--replay", os.path.join(work, reps[0])], cwd=VERIF, env=env, capture_output=True, text=True)
            replayed = rp.returncode == 1 and "VIOLATION property=C19" in rp.stdout
        finally:
            revert()
    row = {"id": sid, "tier": tier, "exit": p.returncode, "classes": classes, "replay_reproduced": replayed, "wall_s": round(time.time() - t0)}
    rows.append(row)
    print(json.dumps(row), flush=True)
    mp = os.path.join(d, "meta.json")
    meta = json.load(open(mp))
    meta["checks_run"] = [r for r in meta.get("checks_run", []) if r.get("tier") != tier] + [
        {"cmd": f"git -C /repo apply seeded/{sid}/patch.diff; ./check C19 {tier}; git -C /repo checkout -- . && git -C /repo clean -fdq -- src", "tier": tier,
         "exit": p.returncode, "violation_classes": classes, "replay_reproduced": replayed,
         "verif_commit": subprocess.run(["git", "-C", VERIF, "rev-parse", "--short", "HEAD"], capture_output=True, text=True).stdout.strip()}]
    json.dump(meta, open(mp, "w"), indent=1)
print("caught %d / %d" % (sum(1 for r in rows if r["exit"] == 1), len(rows)))
