#!/usr/bin/env python3
"""Build the Miri sysroot the simulation runs on: the toolchain's own standard library sources
(rust-src component, already on disk) with ONE file patched, std/src/sys/time/unix.rs:

  * Instant::now()     returns Miri's virtual monotonic time rounded down to a multiple of
                       VERIF_CLOCK_QUANTUM_NS nanoseconds (environment of the interpreted program,
                       set per run with -Zmiri-env-set; unset or 0 = unchanged behaviour).  Miri's
                       virtual clock advances on every executed basic block, so two threads can never
                       read the same instant; a real clock has finite resolution.  The quantum is the
                       simulator's "coarse clock" fault.
  * SystemTime::now()  returns the same (quantised) virtual time plus a fixed epoch offset instead
                       of asking the host for CLOCK_REALTIME (which Miri refuses under isolation):
                       every clock the simulated program can read is the simulator's.

Nothing else in std, and nothing in /repo, is touched.  Output: /verif/work/miri-sysroot (about
200 MB, not committed; rebuilt by MANIFEST.setup_cmd or lazily by ./check).  With `--target <triple>` the
same patched library is built for another target into /verif/work/miri-sysroot-<triple> (used for the
big-endian lane, s390x-unknown-linux-gnu: Miri interprets any target's MIR on this host).  Offline: cargo-miri
builds the sysroot from the rust-src component and the vendored crates it ships with.
Exit 0 = sysroot ready (path printed), anything else = not available (the driver then falls back to the
stock sysroot and skips the coarse-clock runs).
"""
import hashlib
import os
import shutil
import subprocess
import sys

VERIF = os.path.dirname(os.path.dirname(os.path.abspath(__file__)))
WORK = os.path.join(VERIF, "work")
TARGET = None
for _i, _a in enumerate(sys.argv):
    if _a == "--target" and _i + 1 < len(sys.argv):
        TARGET = sys.argv[_i + 1]
# one sysroot per target: the host's, and (optional) a big-endian one for the cross-interpreted lane
SYSROOT = os.path.join(WORK, "miri-sysroot" + ("-" + TARGET if TARGET else ""))
SRC = os.path.join(WORK, "sysroot-src" + ("-" + TARGET if TARGET else ""), "rust", "library")
STAMP = os.path.join(SYSROOT, ".verif-stamp")

STEP = """
// volute-verif: wall-clock step fault: seconds to subtract from the wall clock at virtual time `now_ns`.
fn verif_wall_step(now_ns: u64) -> u64 {
    use crate::sync::atomic::{AtomicU64, Ordering};
    static AT: AtomicU64 = AtomicU64::new(u64::MAX);
    static BACK: AtomicU64 = AtomicU64::new(0);
    let mut at = AT.load(Ordering::Relaxed);
    if at == u64::MAX {
        at = crate::env::var("VERIF_WALL_STEP_AT_NS").ok().and_then(|s| s.parse::<u64>().ok()).unwrap_or(u64::MAX - 1);
        BACK.store(crate::env::var("VERIF_WALL_STEP_BACK_S").ok().and_then(|s| s.parse::<u64>().ok()).unwrap_or(0), Ordering::Relaxed);
        AT.store(at, Ordering::Relaxed);
    }
    if now_ns >= at { BACK.load(Ordering::Relaxed) } else { 0 }
}
"""

OLD_INSTANT = """    pub fn now() -> Instant {
        // https://pubs.opengroup.org/onlinepubs/9799919799/functions/clock_getres.html
        Instant { t: Timespec::now(Self::CLOCK_ID) }
    }
"""
NEW_INSTANT = """    pub fn now() -> Instant {
        // https://pubs.opengroup.org/onlinepubs/9799919799/functions/clock_getres.html
        Instant { t: verif_quantize(Timespec::now(Self::CLOCK_ID)) }
    }
"""
OLD_SYSTIME = """    pub fn now() -> SystemTime {
        SystemTime { t: Timespec::now(libc::CLOCK_REALTIME) }
    }
"""
NEW_SYSTIME = """    pub fn now() -> SystemTime {
        // volute-verif: wall-clock time = the simulator's virtual monotonic clock + a fixed epoch offset
        // (minus VERIF_WALL_STEP_BACK_S seconds once the virtual time has reached VERIF_WALL_STEP_AT_NS: a wall clock
        // that is stepped backwards while the program runs; Instant stays monotonic)
        let m = verif_quantize(Timespec::now(libc::CLOCK_MONOTONIC));
        let back = verif_wall_step((m.tv_sec as u64).wrapping_mul(1_000_000_000).wrapping_add(m.tv_nsec.as_inner() as u64)) as i64;
        SystemTime { t: Timespec::new(m.tv_sec + 1_790_000_000 - back, m.tv_nsec.as_inner() as i64).unwrap_or(m) }
    }
"""
APPEND = """
// volute-verif: coarse simulated clock (see /verif/tools/build_sysroot.py).
fn verif_quantize(t: Timespec) -> Timespec {
    use crate::sync::atomic::{AtomicU64, Ordering};
    static Q: AtomicU64 = AtomicU64::new(u64::MAX);
    let mut q = Q.load(Ordering::Relaxed);
    if q == u64::MAX {
        q = crate::env::var("VERIF_CLOCK_QUANTUM_NS").ok().and_then(|s| s.parse::<u64>().ok()).unwrap_or(0);
        Q.store(q, Ordering::Relaxed);
    }
    if q == 0 {
        return t;
    }
    let total = (t.tv_sec as i128) * 1_000_000_000 + (t.tv_nsec.as_inner() as i128);
    let fl = total - total.rem_euclid(q as i128);
    Timespec::new((fl / 1_000_000_000) as i64, (fl % 1_000_000_000) as i64).unwrap_or(t)
}
""" + STEP


# the same two functions for Windows targets (std/src/sys/time/windows.rs): Instant::now() is
# QueryPerformanceCounter scaled to nanoseconds (Miri: its virtual clock), SystemTime::now() asks the host
WIN_OLD_INSTANT = "        Self { t: Duration::from_nanos(instant_nsec) }\n"
WIN_NEW_INSTANT = "        Self { t: Duration::from_nanos(verif_quantize_ns(instant_nsec)) }\n"
WIN_OLD_SYSTIME = """    pub fn now() -> SystemTime {
        unsafe {
            let mut t: SystemTime = mem::zeroed();
            c::GetSystemTimePreciseAsFileTime(&mut t.t);
            t
        }
    }
"""
WIN_NEW_SYSTIME = """    pub fn now() -> SystemTime {
        // volute-verif: wall-clock time = the simulator's virtual monotonic clock + a fixed epoch offset
        let ns = Instant::now().t.as_nanos() as u64;
        SystemTime::from_intervals(((11_644_473_600u64 + 1_790_000_000u64 - verif_wall_step(ns)) * (INTERVALS_PER_SEC as u64) + ns / 100) as i64)
    }
"""
WIN_APPEND = """
// volute-verif: coarse simulated clock (see /verif/tools/build_sysroot.py).
fn verif_quantize_ns(t: u64) -> u64 {
    use crate::sync::atomic::{AtomicU64, Ordering};
    static Q: AtomicU64 = AtomicU64::new(u64::MAX);
    let mut q = Q.load(Ordering::Relaxed);
    if q == u64::MAX {
        q = crate::env::var("VERIF_CLOCK_QUANTUM_NS").ok().and_then(|s| s.parse::<u64>().ok()).unwrap_or(0);
        Q.store(q, Ordering::Relaxed);
    }
    if q == 0 { t } else { t - t % q }
}
""" + STEP


def sh(cmd, **kw):
    return subprocess.run(cmd, capture_output=True, text=True, **kw)


def toolchain_lib_src():
    p = sh(["rustc", "+nightly", "--print", "sysroot"])
    if p.returncode != 0:
        raise RuntimeError("no nightly toolchain: " + p.stderr)
    d = os.path.join(p.stdout.strip(), "lib", "rustlib", "src", "rust", "library")
    if not os.path.isdir(d):
        raise RuntimeError("rust-src component not found at " + d)
    return d


def wanted_stamp():
    v = sh(["rustc", "+nightly", "-vV"]).stdout + sh(["cargo", "+nightly", "miri", "--version"]).stdout
    return hashlib.sha256((v + NEW_INSTANT + NEW_SYSTIME + APPEND + WIN_NEW_INSTANT + WIN_NEW_SYSTIME + WIN_APPEND).encode()).hexdigest()


def main():
    want = wanted_stamp()
    if os.path.isfile(STAMP) and open(STAMP).read().strip() == want and "--force" not in sys.argv:
        print(SYSROOT)
        return 0
    lib = toolchain_lib_src()
    srcroot = os.path.dirname(os.path.dirname(SRC))
    shutil.rmtree(srcroot, ignore_errors=True)
    shutil.rmtree(SYSROOT, ignore_errors=True)
    os.makedirs(os.path.dirname(SRC), exist_ok=True)
    shutil.copytree(lib, SRC, symlinks=True)
    f = os.path.join(SRC, "std", "src", "sys", "time", "unix.rs")
    s = open(f).read()
    if s.count(OLD_INSTANT) != 1 or s.count(OLD_SYSTIME) != 1:
        raise RuntimeError("std/src/sys/time/unix.rs does not look as expected; not patching")
    s = s.replace(OLD_INSTANT, NEW_INSTANT).replace(OLD_SYSTIME, NEW_SYSTIME) + APPEND
    open(f, "w").write(s)
    fw = os.path.join(SRC, "std", "src", "sys", "time", "windows.rs")
    w = open(fw).read()
    if w.count(WIN_OLD_INSTANT) == 1 and w.count(WIN_OLD_SYSTIME) == 1:
        open(fw, "w").write(w.replace(WIN_OLD_INSTANT, WIN_NEW_INSTANT).replace(WIN_OLD_SYSTIME, WIN_NEW_SYSTIME) + WIN_APPEND)
    elif TARGET and "windows" in TARGET:
        raise RuntimeError("std/src/sys/time/windows.rs does not look as expected; not patching")
    env = dict(os.environ, MIRI_LIB_SRC=SRC, MIRI_SYSROOT=SYSROOT, CARGO_NET_OFFLINE="true")
    env.pop("RUSTFLAGS", None)
    p = sh(["cargo", "+nightly", "miri", "setup"] + (["--target", TARGET] if TARGET else []), env=env, cwd=WORK)
    if p.returncode != 0 or not os.path.isdir(os.path.join(SYSROOT, "lib")):
        sys.stderr.write(p.stdout[-3000:] + p.stderr[-6000:])
        raise RuntimeError("cargo miri setup for the patched library failed")
    open(STAMP, "w").write(want)
    shutil.rmtree(srcroot, ignore_errors=True)  # 60 MB of sources no longer needed
    print(SYSROOT)
    return 0


if __name__ == "__main__":
    try:
        sys.exit(main())
    except Exception as e:  # noqa
        sys.stderr.write(f"build_sysroot: {e}\n")
        sys.exit(1)
