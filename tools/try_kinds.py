#!/usr/bin/env python3
"""Run only the plan entries of the given kinds (current /repo working tree) and print what the oracles say.
usage: tools/try_kinds.py <quick|thorough> <kind>[,<kind>..]   — a development aid, never a verdict, writes no evidence."""
import os, sys
sys.path.insert(0, os.path.dirname(os.path.dirname(os.path.abspath(__file__))))
from simlib import driver, plan, runner
tier, kinds = sys.argv[1], set(sys.argv[2].split(","))
seed = int(os.environ.get("VERIF_SEED", "1"))
jobs = [j for j in plan.make_plan(seed, tier) if j["kind"] in kinds]
driver.sysroot_note(jobs)
runner.build()
recs, _ = driver.run_batch(jobs, stop_on_violation=False)
for r in sorted(recs, key=lambda r: r["job"]["id"]):
    print(r["job"]["id"], r["job"]["kind"], " ".join(runner.argv_of(r["job"])), r["job"].get("wallstep"), r["status"], round(r["wall"]), "virt=%.1fs" % (r.get("virt_ns", 0) / 1e9), [v["class"] for v in r["violations"]], (r.get("why") or "")[:200])
print("violating runs:", sum(1 for r in recs if r["violations"]), "of", len(recs), "; not ok:", sum(1 for r in recs if r["status"] != "ok"))
